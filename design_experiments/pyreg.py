"""Throw-away probe: Engine P on the REAL jumanji/registration.py with symbolic strings (z3 + cvc5 portfolio)."""
import warnings; warnings.filterwarnings('ignore')
import re, sre_parse, subprocess, tempfile, time, itertools, os
import z3

# ---------------- tiny solver portfolio on SMT-LIB text ----------------
def solve(assertions, timeout=30):
    s = z3.Solver(); s.add(*assertions); smt = '(set-logic ALL)\n' + s.to_smt2().replace('(set-info :status unknown)', '')
    s.set('timeout', 3000); r = s.check()
    if r != z3.unknown: return str(r), 'z3'
    with tempfile.NamedTemporaryFile('w', suffix='.smt2', delete=False) as f: f.write(smt); p = f.name
    try:
        out = subprocess.run(['cvc5', '--strings-exp', f'--tlimit={timeout*1000}', p], capture_output=True, text=True).stdout.strip().split('\n')[0]
    finally: os.unlink(p)
    return (out if out in ('sat', 'unsat') else 'unknown'), 'cvc5'

class Abort(Exception): pass
class Ctx:
    cur = None
    def __init__(self, prefix): self.prefix, self.taken, self.pc, self.pending, self.facts = list(prefix), [], [], [], []
    def assume(self, t): self.facts.append(t)
    def decide(self, term):
        if isinstance(term, bool): return term
        i = len(self.taken)
        if i < len(self.prefix): v = self.prefix[i]
        else:
            t_ok = solve(self.facts + self.pc + [term])[0] != 'unsat'
            f_ok = solve(self.facts + self.pc + [z3.Not(term)])[0] != 'unsat'
            if t_ok and f_ok: self.pending.append(self.taken + [False]); v = True
            elif t_ok: v = True
            elif f_ok: v = False
            else: raise Abort()
        self.taken.append(v); self.pc.append(term if v else z3.Not(term)); return v

TOK = {}
class SymInt:
    def __init__(self, t): self.t = t
    def __format__(self, spec):
        assert spec == ''; k = f'\x00I{len(TOK)}\x00'; TOK[k] = STR(self.t); return k
class SymStr:
    def __init__(self, t): self.t = t
    @staticmethod
    def lift(x):
        if isinstance(x, SymStr): return x.t
        parts = re.split('(\x00[IS]\\d+\x00)', x)
        ts = [TOK[p] if p in TOK else z3.StringVal(p) for p in parts if p != '']
        return z3.Concat(*ts) if len(ts) > 1 else (ts[0] if ts else z3.StringVal(''))
    def __add__(self, o): return SymStr(z3.Concat(self.t, SymStr.lift(o)))
    def __radd__(self, o): return SymStr(z3.Concat(SymStr.lift(o), self.t))
    def __format__(self, spec):
        k = f'\x00S{len(TOK)}\x00'; TOK[k] = self.t; return k
    def __hash__(self): raise TypeError('symbolic string used as a native dict key')
STR = z3.Function('STR', z3.IntSort(), z3.StringSort()); INT = z3.Function('INT', z3.StringSort(), z3.IntSort())
DIG = z3.Plus(z3.Range('0', '9'))
def sym_int(x):          # replaces builtin int() inside the analysed module
    if isinstance(x, SymStr): return SymInt(INT(x.t))
    return int(x)

# ---------------- regex shim generated from the real pattern ----------------
def to_z3re(parsed):
    out = []
    for op, av in parsed:
        op = str(op)
        if op == 'LITERAL': out.append(z3.Re(chr(av)))
        elif op == 'IN':
            alts = []
            for o2, a2 in av:
                o2 = str(o2)
                if o2 == 'LITERAL': alts.append(z3.Re(chr(a2)))
                elif o2 == 'RANGE': alts.append(z3.Range(chr(a2[0]), chr(a2[1])))
                elif o2 == 'CATEGORY' and 'WORD' in str(a2): alts += [z3.Range('a', 'z'), z3.Range('A', 'Z'), z3.Range('0', '9'), z3.Re('_')]   # ASCII reading of \w
                elif o2 == 'CATEGORY' and 'DIGIT' in str(a2): alts.append(z3.Range('0', '9'))
                else: raise NotImplementedError(o2)
            out.append(z3.Union(*alts) if len(alts) > 1 else alts[0])
        elif op in ('MAX_REPEAT', 'MIN_REPEAT'):
            lo, hi, sub = av; r = to_z3re(sub)
            if (lo, str(hi)) == (1, 'MAXREPEAT'): out.append(z3.Plus(r))
            elif (lo, hi) == (0, 1): out.append(z3.Option(r))
            else: raise NotImplementedError(av)
        elif op == 'SUBPATTERN': out.append(to_z3re(av[3]))
        elif op == 'AT': pass
        else: raise NotImplementedError(op)
    return z3.Concat(*out) if len(out) > 1 else out[0]
class ReShim:
    """Contract of pattern.fullmatch for patterns of the form ^(?:(?P<name>X+?))(?:-v(?P<version>D+))?$ , derived from sre_parse."""
    def __init__(self, real):
        self.real = real; p = sre_parse.parse(real.pattern)
        items = [(str(o), a) for o, a in p if str(o) != 'AT']
        assert [o for o, _ in items] == ['SUBPATTERN', 'MAX_REPEAT'], items
        name_sub = items[0][1][3]
        assert str(name_sub[0][0]) == 'MIN_REPEAT', 'lazy name expected'
        self.NAME = to_z3re(name_sub)
        opt = items[1][1]; assert opt[0] == 0 and opt[1] == 1
        vs = list(opt[2])        # literals '-','v' then the named group
        self.PREFIX = ''.join(chr(a) for o, a in vs if str(o) == 'LITERAL')
        self.VERS = to_z3re([x for x in vs if str(x[0]) == 'SUBPATTERN'])
        self.FULLV = z3.Concat(self.NAME, z3.Re(self.PREFIX), self.VERS)
    def fullmatch(self, s):
        st = SymStr.lift(s); ctx = Ctx.cur
        hasv = z3.InRe(st, self.FULLV)
        if ctx.decide(hasv):           # lazy name: the version group participates whenever it can
            n, v = z3.FreshConst(z3.StringSort(), 'name'), z3.FreshConst(z3.StringSort(), 'vers')
            ctx.assume(z3.And(st == z3.Concat(n, z3.StringVal(self.PREFIX), v), z3.InRe(n, self.NAME), z3.InRe(v, self.VERS)))
            return MatchShim({'name': SymStr(n), 'version': SymStr(v)})
        if ctx.decide(z3.InRe(st, self.NAME)): return MatchShim({'name': SymStr(st), 'version': None})
        return None
class MatchShim:
    def __init__(self, g): self.g = g
    def group(self, *names): return tuple(self.g[n] for n in names)

def explore(thunk):
    results, work = [], [[]]
    while work:
        ctx = Ctx(work.pop()); Ctx.cur = ctx
        try: out = ('ret', thunk())
        except Abort: continue
        except Exception as ex: out = ('exc', ex)
        work.extend(ctx.pending); results.append((ctx, out))
    return results

import jumanji.registration as R
real_re = R.ENV_NAME_RE
R.ENV_NAME_RE = ReShim(real_re); R.int = sym_int
shim = R.ENV_NAME_RE
print('pattern :', real_re.pattern)
# ---- obligation 1: every id is either parsed or rejected with ValueError; accepted <=> NAME -v DIGITS
sid = SymStr(z3.String('id'))
paths = explore(lambda: R.parse_env_id(sid))
for ctx, out in paths: print('  path', [str(z3.simplify(p))[:60] for p in ctx.pc], '->', out[0], type(out[1]).__name__)
acc = z3.Or(*[z3.And(*ctx.pc) for ctx, out in paths if out[0] == 'ret'])
print('  accepted <=> id in NAME-vDIGITS :', solve([acc != z3.InRe(sid.t, shim.FULLV)]))
# ---- obligation 2: parse(get_env_id(name, N)) == (name, N)
name, N = z3.String('nm'), z3.Int('N')
base = [z3.InRe(name, shim.NAME), N >= 0, z3.InRe(STR(N), DIG), INT(STR(N)) == N]        # assumed contract of str()/int(), instantiated
t0 = time.time()
for ctx, out in explore(lambda: R.parse_env_id(R.get_env_id(SymStr(name), SymInt(N)))):
    feas = solve(base + ctx.facts + ctx.pc)
    if feas[0] == 'unsat': print('  path', out[0], 'infeasible under the precondition', feas); continue
    if out[0] == 'exc': print('  REJECTS a well-formed id:', type(out[1]).__name__, feas); continue
    n2, v2 = out[1]
    print('  round trip parse(format(name,N)) == (name,N):', solve(base + ctx.facts + ctx.pc + [z3.Not(z3.And(n2.t == name, v2.t == N))]), f'{time.time()-t0:.1f}s')
