"""Throw-away feasibility prototype: symbolic evaluation of jaxprs to z3 terms (element-wise)."""
import itertools, math
import numpy as np
import jax, jax.numpy as jnp
from jax import core
import z3

# ---------- scalar term helpers (python constants fold) ----------
def is_c(x): return isinstance(x, (bool, int, float, np.bool_, np.integer, np.floating))
def cv(x):
    if isinstance(x, (np.bool_,)): return bool(x)
    if isinstance(x, np.integer): return int(x)
    if isinstance(x, np.floating): return float(x)
    return x
def zint(x): return z3.IntVal(x) if is_c(x) else x
def zreal(x):
    if is_c(x): return z3.RealVal(repr(float(x))) if not float(x).is_integer() else z3.RealVal(int(x))
    return x
def zbool(x): return z3.BoolVal(bool(x)) if is_c(x) else x

def kind(dtype):
    dtype = np.dtype(dtype) if not hasattr(dtype, 'kind') else dtype
    if dtype == np.bool_: return 'b'
    if np.issubdtype(dtype, np.integer): return 'i'
    if np.issubdtype(dtype, np.floating): return 'f'
    return 'k'  # key / other

def lift(x, k):
    return {'b': zbool, 'i': zint, 'f': zreal}[k](x)

def ite(c, a, b, k):
    if is_c(c): return a if c else b
    if is_c(a) and is_c(b) and a == b: return a
    if (not is_c(a)) and (not is_c(b)) and a.eq(b): return a
    if k == 'b':
        if is_c(a) and is_c(b): return c if a else z3.Not(c)
    return z3.If(c, lift(a, k), lift(b, k))

def b_and(a, b):
    if is_c(a): return b if a else False
    if is_c(b): return a if b else False
    return z3.And(a, b)
def b_or(a, b):
    if is_c(a): return True if a else b
    if is_c(b): return True if b else a
    return z3.Or(a, b)
def b_not(a):
    if is_c(a): return not a
    return z3.Not(a)

def arith(op, a, b, k):
    if k == 'f':
        for x, y, first in ((a, b, True), (b, a, False)):
            if is_c(x) and isinstance(cv(x), float) and math.isinf(cv(x)) and not is_c(y):
                pos = cv(x) > 0
                if op == 'max': return x if pos else y
                if op == 'min': return y if pos else x
                raise NotImplementedError('inf arithmetic ' + op)
    if is_c(a) and is_c(b):
        a, b = cv(a), cv(b)
        if op == 'add': return a + b
        if op == 'sub': return a - b
        if op == 'mul': return a * b
        if op == 'max': return max(a, b)
        if op == 'min': return min(a, b)
        if op == 'div':
            if k == 'i':
                q = abs(a) // abs(b); return q if (a >= 0) == (b >= 0) else -q
            return a / b
        if op == 'rem':
            if k == 'i': return int(math.fmod(a, b))
            return math.fmod(a, b)
    if op == 'add':
        if is_c(a) and a == 0: return b
        if is_c(b) and b == 0: return a
        return lift(a, k) + lift(b, k)
    if op == 'sub':
        if is_c(b) and b == 0: return a
        return lift(a, k) - lift(b, k)
    if op == 'mul':
        if is_c(a) and a == 0: return 0
        if is_c(b) and b == 0: return 0
        if is_c(a) and a == 1: return b
        if is_c(b) and b == 1: return a
        return lift(a, k) * lift(b, k)
    if op == 'max':
        try: return z3.If(lift(a, k) >= lift(b, k), lift(a, k), lift(b, k))
        except Exception: print('MAXFAIL', repr(a), type(a), repr(b), type(b), k); raise
    if op == 'min': return z3.If(lift(a, k) <= lift(b, k), lift(a, k), lift(b, k))
    if op == 'div':
        if k == 'f': return lift(a, k) / lift(b, k)
        # C-style truncating division, b assumed constant positive in prototype
        assert is_c(b) and b > 0, 'prototype: int div by symbolic'
        A = lift(a, k)
        return z3.If(A >= 0, A / b, -((-A) / b))
    if op == 'rem':
        assert is_c(b) and b > 0 and k == 'i'
        A = lift(a, k)
        return z3.If(A >= 0, A % b, -((-A) % b))
    raise NotImplementedError(op)

def cmp(op, a, b, k):
    if k == 'f':
        if is_c(a) and not is_c(b) and isinstance(cv(a), float) and math.isinf(cv(a)):
            pos = cv(a) > 0   # assumes b finite
            return {'lt': not pos, 'le': not pos, 'gt': pos, 'ge': pos, 'eq': False, 'ne': True}[op]
        if is_c(b) and not is_c(a) and isinstance(cv(b), float) and math.isinf(cv(b)):
            pos = cv(b) > 0
            return {'lt': pos, 'le': pos, 'gt': not pos, 'ge': not pos, 'eq': False, 'ne': True}[op]
    if is_c(a) and is_c(b):
        a, b = cv(a), cv(b)
        return {'lt': a < b, 'le': a <= b, 'gt': a > b, 'ge': a >= b, 'eq': a == b, 'ne': a != b}[op]
    if k == 'b':
        A, B = zbool(a), zbool(b)
        if op == 'eq': return A == B
        if op == 'ne': return A != B
        raise NotImplementedError
    A, B = lift(a, k), lift(b, k)
    return {'lt': A < B, 'le': A <= B, 'gt': A > B, 'ge': A >= B, 'eq': A == B, 'ne': A != B}[op]

def convert(x, kfrom, kto):
    if kfrom == kto: return x
    if is_c(x):
        x = cv(x)
        return {'b': bool, 'i': int, 'f': float}[kto](x)
    if kfrom == 'b': return z3.If(x, lift(1, kto), lift(0, kto))
    if kto == 'b': return x != 0
    if kfrom == 'i' and kto == 'f': return z3.ToReal(x)
    if kfrom == 'f' and kto == 'i':
        # truncation toward zero
        return z3.If(x >= 0, z3.ToInt(x), -z3.ToInt(-x))
    raise NotImplementedError((kfrom, kto))

def obj(a):
    """concrete numpy/jax array -> object array of python scalars"""
    a = np.asarray(a)
    out = np.empty(a.shape, dtype=object)
    for idx in np.ndindex(a.shape): out[idx] = cv(a[idx])
    if a.shape == (): out[()] = cv(a[()])
    return out

def vmap2(f, a, b):
    a, b = np.broadcast_arrays(a, b)
    out = np.empty(a.shape, dtype=object)
    for idx in np.ndindex(a.shape): out[idx] = f(a[idx], b[idx])
    return out
def vmap1(f, a):
    out = np.empty(a.shape, dtype=object)
    for idx in np.ndindex(a.shape): out[idx] = f(a[idx])
    return out

def as_arr(v):
    if isinstance(v, np.ndarray): return v
    a = np.empty((), dtype=object); a[()] = v; return a
class Unwind(Exception): pass

class Sym:
    def __init__(self, while_bound=64):
        self.fresh = 0
        self.side = []          # side assertions (e.g. unwinding assertions)
        self.while_bound = while_bound
        self.assumes = []
    def fresh_var(self, name, k):
        self.fresh += 1
        n = f'{name}!{self.fresh}'
        return {'b': z3.Bool, 'i': z3.Int, 'f': z3.Real}[k](n)
    def sym_array(self, name, shape, dtype, lo=None, hi=None):
        k = kind(dtype)
        out = np.empty(shape, dtype=object)
        for idx in np.ndindex(*shape):
            v = {'b': z3.Bool, 'i': z3.Int, 'f': z3.Real}[k](name + ''.join(f'_{i}' for i in idx))
            out[idx] = v
            if k == 'i':
                info = np.iinfo(dtype)
                self.assumes.append(v >= (info.min if lo is None else lo)); self.assumes.append(v <= (info.max if hi is None else hi))
        return out

    # ---- evaluation ----
    def eval_closed(self, cj, *args):
        return self.eval(cj.jaxpr, [obj(c) for c in cj.consts], *args)

    def eval(self, jaxpr, consts, *args):
        env = {}
        def read(v):
            if isinstance(v, core.Literal): return obj(v.val)
            return env[v]
        for v, c in zip(jaxpr.constvars, consts): env[v] = c
        assert len(jaxpr.invars) == len(args), (len(jaxpr.invars), len(args))
        for v, a in zip(jaxpr.invars, args): env[v] = a
        for e in jaxpr.eqns:
            ins = [read(v) for v in e.invars]
            h = getattr(self, 'p_' + e.primitive.name.replace('-', '_'), None)
            if h is None: raise NotImplementedError(e.primitive.name + ' ' + str(e.params.keys()))
            try:
                outs = h(e, *ins)
            except Exception as ex:
                if not getattr(ex, '_shown', False):
                    print('FAILED EQN:', e.primitive.name, [str(v.aval) for v in e.invars], '->', [str(v.aval) for v in e.outvars], {k: v for k, v in e.params.items() if k not in ('jaxpr','branches','cond_jaxpr','body_jaxpr','call_jaxpr')}); ex._shown = True
                raise
            if not e.primitive.multiple_results: outs = [outs]
            for v, o in zip(e.outvars, outs):
                o = np.asarray(o, dtype=object) if not isinstance(o, np.ndarray) else o
                assert o.shape == tuple(v.aval.shape), (e.primitive.name, o.shape, v.aval.shape)
                env[v] = o
        return [read(v) for v in jaxpr.outvars]

    @staticmethod
    def k_in(e, i=0): return kind(e.invars[i].aval.dtype)
    @staticmethod
    def k_out(e, i=0): return kind(e.outvars[i].aval.dtype)

    # structural
    def p_broadcast_in_dim(self, e, x, *dyn):
        shape, bdims = e.params['shape'], e.params['broadcast_dimensions']
        idx = [None] * len(shape)
        src = x.reshape([x.shape[bdims.index(d)] if d in bdims else 1 for d in range(len(shape))])
        return np.broadcast_to(src, shape).copy()
    def p_reshape(self, e, x, *a): return x.reshape(e.params['new_sizes'])
    def p_squeeze(self, e, x): return np.squeeze(x, axis=tuple(e.params['dimensions']))
    def p_expand_dims(self, e, x): return np.expand_dims(x, e.params['dimensions'])
    def p_transpose(self, e, x): return np.transpose(x, e.params['permutation'])
    def p_rev(self, e, x): return np.flip(x, axis=tuple(e.params['dimensions']))
    def p_concatenate(self, e, *xs): return np.concatenate(xs, axis=e.params['dimension'])
    def p_copy(self, e, x): return x
    def p_copy_p(self, e, x): return x
    def p_device_put(self, e, *xs): return list(xs)
    def p_stop_gradient(self, e, x): return x
    def p_slice(self, e, x):
        st = e.params['strides'] or [1] * x.ndim
        return x[tuple(slice(a, b, s) for a, b, s in zip(e.params['start_indices'], e.params['limit_indices'], st))]
    def p_iota(self, e):
        shape, dim = e.params['shape'], e.params['dimension']
        out = np.empty(shape, dtype=object)
        for idx in np.ndindex(*shape): out[idx] = idx[dim]
        return out
    def p_pad(self, e, x, pv):
        cfg = e.params['padding_config']
        assert all(i == 0 and lo >= 0 and hi >= 0 for lo, hi, i in cfg)
        shape = [lo + s + hi for (lo, hi, _), s in zip(cfg, x.shape)]
        out = np.empty(shape, dtype=object); out[...] = pv[()]
        out[tuple(slice(lo, lo + s) for (lo, _, _), s in zip(cfg, x.shape))] = x
        return out
    def p_convert_element_type(self, e, x):
        kf, kt = self.k_in(e), kind(e.params['new_dtype'])
        return vmap1(lambda v: convert(v, kf, kt), x)
    def p_pjit(self, e, *xs):
        return self.eval_closed(e.params['jaxpr'], *xs)
    def p_custom_jvp_call(self, e, *xs):
        return self.eval_closed(e.params['call_jaxpr'], *xs)
    def p_closed_call(self, e, *xs): return self.eval_closed(e.params['call_jaxpr'], *xs)

    # elementwise
    def _bin(self, op):
        def f(e, a, b):
            k = self.k_out(e)
            return vmap2(lambda x, y: arith(op, x, y, k), a, b)
        return f
    def p_add(self, e, a, b): return self._bin('add')(e, a, b)
    def p_sub(self, e, a, b): return self._bin('sub')(e, a, b)
    def p_mul(self, e, a, b): return self._bin('mul')(e, a, b)
    def p_max(self, e, a, b):
        if self.k_out(e) == 'b': return vmap2(b_or, a, b)
        return self._bin('max')(e, a, b)
    def p_min(self, e, a, b):
        if self.k_out(e) == 'b': return vmap2(b_and, a, b)
        return self._bin('min')(e, a, b)
    def p_div(self, e, a, b): return self._bin('div')(e, a, b)
    def p_rem(self, e, a, b): return self._bin('rem')(e, a, b)
    def p_neg(self, e, a):
        k = self.k_out(e); return vmap1(lambda x: arith('sub', 0, x, k), a)
    def p_sign(self, e, a):
        k = self.k_out(e)
        return vmap1(lambda x: (x > 0) - (x < 0) if is_c(x) else z3.If(x > 0, lift(1, k), z3.If(x < 0, lift(-1, k), lift(0, k))), a)
    def p_abs(self, e, a):
        k = self.k_out(e)
        return vmap1(lambda x: abs(x) if is_c(x) else z3.If(x >= 0, x, -x), a)
    def p_integer_pow(self, e, a):
        y = e.params['y']; k = self.k_out(e)
        def f(x):
            r = 1
            for _ in range(y): r = arith('mul', r, x, k)
            return r
        return vmap1(f, a)
    def _cmp(self, op):
        def f(e, a, b):
            k = self.k_in(e)
            return vmap2(lambda x, y: cmp(op, x, y, k), a, b)
        return f
    def p_lt(self, e, a, b): return self._cmp('lt')(e, a, b)
    def p_le(self, e, a, b): return self._cmp('le')(e, a, b)
    def p_gt(self, e, a, b): return self._cmp('gt')(e, a, b)
    def p_ge(self, e, a, b): return self._cmp('ge')(e, a, b)
    def p_eq(self, e, a, b): return self._cmp('eq')(e, a, b)
    def p_ne(self, e, a, b): return self._cmp('ne')(e, a, b)
    def p_and(self, e, a, b):
        assert self.k_out(e) == 'b'; return vmap2(b_and, a, b)
    def p_or(self, e, a, b):
        assert self.k_out(e) == 'b'; return vmap2(b_or, a, b)
    def p_not(self, e, a):
        assert self.k_out(e) == 'b'; return vmap1(b_not, a)
    def p_select_n(self, e, c, *cases):
        k = self.k_out(e); kc = self.k_in(e)
        if kc == 'b':
            assert len(cases) == 2
            c, f, t = np.broadcast_arrays(c, cases[0], cases[1])
            out = np.empty(f.shape, dtype=object)
            for idx in np.ndindex(f.shape): out[idx] = ite(c[idx], t[idx], f[idx], k)
            return out
        c = np.broadcast_to(c, cases[0].shape)
        out = np.empty(cases[0].shape, dtype=object)
        for idx in np.ndindex(out.shape):
            r = cases[-1][idx]
            for j in range(len(cases) - 2, -1, -1):
                r = ite(cmp('eq', c[idx], j, 'i'), cases[j][idx], r, k)
            out[idx] = r
        return out
    def p_clamp(self, e, lo, x, hi):
        k = self.k_out(e)
        lo, x, hi = np.broadcast_arrays(lo, x, hi)
        return vmap2(lambda a, b: arith('min', a, b, k), vmap2(lambda a, b: arith('max', a, b, k), x, lo), hi)

    # reductions
    def _reduce(self, e, x, f, init):
        axes = tuple(e.params['axes'])
        moved = np.moveaxis(x, axes, tuple(range(len(axes))))
        rest = moved.shape[len(axes):]
        flat = moved.reshape((-1,) + rest)
        out = np.empty(rest, dtype=object)
        for idx in np.ndindex(*rest):
            r = init
            for j in range(flat.shape[0]): r = f(r, flat[(j,) + idx])
            out[idx] = r
        return out
    def p_reduce_or(self, e, x): return self._reduce(e, x, b_or, False)
    def p_reduce_and(self, e, x): return self._reduce(e, x, b_and, True)
    def p_reduce_sum(self, e, x):
        k = self.k_out(e); return self._reduce(e, x, lambda a, b: arith('add', a, b, k), 0)
    def p_reduce_max(self, e, x):
        k = self.k_out(e)
        if k == 'b': return self._reduce(e, x, b_or, False)
        axes = tuple(e.params['axes']);
        return self._reduce_nonempty(e, x, lambda a, b: arith('max', a, b, k))
    def p_reduce_min(self, e, x):
        k = self.k_out(e)
        if k == 'b': return self._reduce(e, x, b_and, True)
        return self._reduce_nonempty(e, x, lambda a, b: arith('min', a, b, k))
    def _reduce_nonempty(self, e, x, f):
        axes = tuple(e.params['axes'])
        moved = np.moveaxis(x, axes, tuple(range(len(axes))))
        rest = moved.shape[len(axes):]
        flat = moved.reshape((-1,) + rest)
        out = np.empty(rest, dtype=object)
        for idx in np.ndindex(*rest):
            r = flat[(0,) + idx]
            for j in range(1, flat.shape[0]): r = f(r, flat[(j,) + idx])
            out[idx] = r
        return out
    def _argred(self, e, x, better):
        (axis,) = e.params['axes']; k = self.k_in(e)
        moved = np.moveaxis(x, axis, 0)
        out = np.empty(moved.shape[1:], dtype=object)
        for idx in np.ndindex(*moved.shape[1:]):
            bi, bv = 0, moved[(0,) + idx]
            for j in range(1, moved.shape[0]):
                v = moved[(j,) + idx]
                c = better(v, bv, k)   # strictly better -> take j (first occurrence wins)
                bi = ite(c, j, bi, 'i'); bv = ite(c, v, bv, k)
            out[idx] = bi
        return out
    def p_argmax(self, e, x):
        def better(v, bv, k):
            if k == 'b': return b_and(v, b_not(bv))
            return cmp('gt', v, bv, k)
        return self._argred(e, x, better)
    def p_argmin(self, e, x):
        def better(v, bv, k):
            if k == 'b': return b_and(b_not(v), bv)
            return cmp('lt', v, bv, k)
        return self._argred(e, x, better)
    def p_cumsum(self, e, x):
        axis, rev = e.params['axis'], e.params['reverse']; k = self.k_out(e)
        assert not rev
        moved = np.moveaxis(x, axis, 0).copy()
        for j in range(1, moved.shape[0]):
            for idx in np.ndindex(*moved.shape[1:]):
                moved[(j,) + idx] = arith('add', moved[(j - 1,) + idx], moved[(j,) + idx], k)
        return np.moveaxis(moved, 0, axis)

    # indexing
    def _sel_index(self, arr_get, starts, maxes, k):
        """arr_get(tuple of concrete starts) -> element; starts symbolic per dim; clamp to [0,max]"""
        def rec(d, chosen):
            if d == len(starts): return arr_get(tuple(chosen))
            s = starts[d]
            if is_c(s):
                return rec(d + 1, chosen + [min(max(int(s), 0), maxes[d])])
            r = rec(d + 1, chosen + [maxes[d]])
            for v in range(maxes[d] - 1, -1, -1):
                c = cmp('le', s, v, 'i') if v == 0 else cmp('eq', s, v, 'i')
                r = ite(c, rec(d + 1, chosen + [v]), r, k)
            return r
        return rec(0, [])
    def p_dynamic_slice(self, e, x, *starts):
        sizes = e.params['slice_sizes']; k = self.k_out(e)
        starts = [s[()] for s in starts]
        maxes = [d - sz for d, sz in zip(x.shape, sizes)]
        out = np.empty(sizes, dtype=object)
        for idx in np.ndindex(*sizes):
            out[idx] = self._sel_index(lambda st: x[tuple(a + b for a, b in zip(st, idx))], starts, maxes, k)
        return out
    def p_dynamic_update_slice(self, e, x, upd, *starts):
        k = self.k_out(e)
        starts = [s[()] for s in starts]
        maxes = [d - sz for d, sz in zip(x.shape, upd.shape)]
        # clamped symbolic starts
        cl = []
        for s, m in zip(starts, maxes):
            if is_c(s): cl.append(min(max(int(s), 0), m))
            else: cl.append(z3.If(s < 0, z3.IntVal(0), z3.If(s > m, z3.IntVal(m), s)))
        out = np.empty(x.shape, dtype=object)
        for idx in np.ndindex(*x.shape):
            r = x[idx]
            for u in np.ndindex(*upd.shape):
                # hit if cl + u == idx
                c = True
                for d in range(x.ndim):
                    c = b_and(c, cmp('eq', cl[d], idx[d] - u[d], 'i'))
                    if is_c(c) and not c: break
                r = ite(c, upd[u], r, k)
            out[idx] = r
        return out
    def p_gather(self, e, operand, indices):
        dn = e.params['dimension_numbers']; sizes = e.params['slice_sizes']; mode = e.params['mode']
        k = self.k_out(e)
        offset_dims, collapsed, sim = dn.offset_dims, dn.collapsed_slice_dims, dn.start_index_map
        obd = tuple(getattr(dn, 'operand_batching_dims', ())); sibd = tuple(getattr(dn, 'start_indices_batching_dims', ()))
        out_shape = e.outvars[0].aval.shape
        batch_dims = [d for d in range(len(out_shape)) if d not in offset_dims]
        op_offset_dims = [d for d in range(operand.ndim) if d not in collapsed and d not in obd]
        fill = mode is not None and 'FILL' in str(mode).upper()
        fillv = e.params.get('fill_value', None)
        out = np.empty(out_shape, dtype=object)
        for oidx in np.ndindex(*out_shape):
            bidx = tuple(oidx[d] for d in batch_dims)
            S = indices[bidx]  # vector over last dim
            offs = [0] * operand.ndim
            for od, pd in zip(offset_dims, op_offset_dims): offs[pd] = oidx[od]
            starts = [0] * operand.ndim
            for kk, d in enumerate(sim): starts[d] = S[kk]
            for od_, sd_ in zip(obd, sibd): starts[od_] = bidx[sd_]
            maxes = [operand.shape[d] - sizes[d] for d in range(operand.ndim)]
            val = self._sel_index(lambda st: operand[tuple(a + b for a, b in zip(st, offs))], starts, maxes, k)
            if fill:
                inb = True
                for d in sim:
                    s = starts[d]
                    inb = b_and(inb, b_and(cmp('ge', s, 0, 'i'), cmp('le', s, maxes[d], 'i')))
                fv = fillv
                if fv is None:
                    dt = e.outvars[0].aval.dtype
                    fv = {'b': True, 'i': int(np.iinfo(dt).min) if k == 'i' and np.issubdtype(dt, np.signedinteger) else 0, 'f': float('nan')}[k] if k != 'i' else (int(np.iinfo(dt).min) if np.issubdtype(dt, np.signedinteger) else int(np.iinfo(dt).max))
                val = ite(inb, val, fv, k)
            out[oidx] = val
        return out
    def _scatter(self, e, operand, indices, updates, combine):
        dn = e.params['dimension_numbers']; k = self.k_out(e)
        uwd, iwd, sdod = dn.update_window_dims, dn.inserted_window_dims, dn.scatter_dims_to_operand_dims
        obd = tuple(getattr(dn, 'operand_batching_dims', ())); sibd = tuple(getattr(dn, 'scatter_indices_batching_dims', ()))
        upd_scatter_dims = [d for d in range(updates.ndim) if d not in uwd]
        op_window_dims = [d for d in range(operand.ndim) if d not in iwd and d not in obd]
        out = operand.copy()
        for uidx in np.ndindex(*updates.shape):
            sidx = tuple(uidx[d] for d in upd_scatter_dims)
            S = indices[sidx]
            win = [0] * operand.ndim
            for ud, od in zip(uwd, op_window_dims): win[od] = uidx[ud]
            for od_, sd_ in zip(obd, sibd): win[od_] = sidx[sd_]
            tgt = list(win); symdims = {}
            for kk, d in enumerate(sdod):
                s = S[kk]
                if is_c(s): tgt[d] = win[d] + int(s)
                else: symdims[d] = s
            u = updates[uidx]
            if not symdims:
                if all(0 <= t < n for t, n in zip(tgt, operand.shape)):   # OOB updates dropped
                    out[tuple(tgt)] = combine(out[tuple(tgt)], u, k)
                continue
            # symbolic: update every candidate cell conditionally (OOB -> dropped)
            ranges = [range(operand.shape[d]) if d in symdims else [tgt[d]] for d in range(operand.ndim)]
            for cell in itertools.product(*ranges):
                if not all(0 <= c < n for c, n in zip(cell, operand.shape)): continue
                c = True
                for d, s in symdims.items(): c = b_and(c, cmp('eq', s, cell[d] - win[d], 'i'))
                out[cell] = ite(c, combine(out[cell], u, k), out[cell], k)
        return out
    def p_scatter(self, e, operand, indices, updates): return self._scatter(e, operand, indices, updates, lambda old, u, k: u)
    def p_scatter_add(self, e, operand, indices, updates): return self._scatter(e, operand, indices, updates, lambda old, u, k: arith('add', old, u, k))

    # control flow
    def _merge(self, c, a, b, k): return vmap2(lambda x, y: ite(c, x, y, k), a, b)
    def p_cond(self, e, idx, *ops):
        branches = e.params['branches']; i = idx[()]
        ks = [kind(v.aval.dtype) for v in e.outvars]
        if is_c(i): return self.eval_closed(branches[min(max(int(i), 0), len(branches) - 1)], *ops)
        kidx = self.k_in(e)
        outs = [self.eval_closed(b, *ops) for b in branches]
        res = outs[-1]
        for j in range(len(branches) - 2, -1, -1):
            c = (b_not(i) if j == 0 else i) if kidx == 'b' else (cmp('le', i, 0, 'i') if j == 0 else cmp('eq', i, j, 'i'))
            res = [self._merge(c, a, b, k) for a, b, k in zip(outs[j], res, ks)]
        return res
    def p_scan(self, e, *args):
        p = e.params; nc, ncar = p['num_consts'], p['num_carry']; L = p['length']
        consts, carry, xs = list(args[:nc]), list(args[nc:nc + ncar]), list(args[nc + ncar:])
        ys = []
        rng = range(L - 1, -1, -1) if p['reverse'] else range(L)
        for t in rng:
            outs = self.eval_closed(p['jaxpr'], *consts, *carry, *[as_arr(x[t]) for x in xs])
            carry = outs[:ncar]; ys.append(outs[ncar:])
        if p['reverse']: ys = ys[::-1]
        nys = len(e.outvars) - ncar
        stacked = []
        for j in range(nys):
            shp = e.outvars[ncar + j].aval.shape
            arr = np.empty(shp, dtype=object)
            for t in range(L):
                if arr.ndim == 1: arr[t] = ys[t][j][()]
                else: arr[t] = ys[t][j]
            stacked.append(arr)
        return carry + stacked
    def p_while(self, e, *args):
        p = e.params; cn, bn = p['cond_nconsts'], p['body_nconsts']
        cc, bc, carry = list(args[:cn]), list(args[cn:cn + bn]), list(args[cn + bn:])
        ks = [kind(v.aval.dtype) for v in e.outvars]
        for it in range(self.while_bound + 1):
            (c,) = self.eval_closed(p['cond_jaxpr'], *cc, *carry)
            if c.ndim == 0:
                c = c[()]
                if is_c(c):
                    if not c: return carry
                    carry = self.eval_closed(p['body_jaxpr'], *bc, *carry); continue
                if it == self.while_bound:
                    self.side.append(('unwind', z3.Not(c))); return carry
                new = self.eval_closed(p['body_jaxpr'], *bc, *carry)
                carry = [self._merge(c, a, b, k) for a, b, k in zip(new, carry, ks)]
            else:
                # batched predicate (vmap of while_loop): lanes run independently, finished lanes keep their carry
                lanes = [c[i] for i in np.ndindex(*c.shape)]; nd = c.ndim
                if all(is_c(x) and not x for x in lanes): return carry
                if it == self.while_bound:
                    for x in lanes:
                        if not (is_c(x) and not x): self.side.append(('unwind', b_not(x)))
                    return carry
                new = self.eval_closed(p['body_jaxpr'], *bc, *carry)
                merged = []
                for a, b, k in zip(new, carry, ks):
                    out = np.empty(a.shape, dtype=object)
                    for idx in np.ndindex(*a.shape): out[idx] = ite(c[idx[:nd]], a[idx], b[idx], k)
                    merged.append(out)
                carry = merged
        return carry

    # randomness: havoc
    def p_random_wrap(self, e, x): return np.empty(e.outvars[0].aval.shape, dtype=object)
    def p_random_unwrap(self, e, x):
        shp = e.outvars[0].aval.shape; out = np.empty(shp, dtype=object)
        for idx in np.ndindex(*shp): out[idx] = self.fresh_var('key', 'i')
        return out
    def p_random_split(self, e, x): return np.empty(e.outvars[0].aval.shape, dtype=object)
    def p_random_fold_in(self, e, x, y): return np.empty(e.outvars[0].aval.shape, dtype=object)
    def p_random_bits(self, e, x):
        shp = e.outvars[0].aval.shape; out = np.empty(shp, dtype=object)
        for idx in np.ndindex(*shp):
            v = self.fresh_var('rbits', 'i'); self.assumes += [v >= 0, v < 2 ** e.params['bit_width']]; out[idx] = v
        return out

def prove(sym, pre, goal, timeout=60000, name=''):
    import time
    s = z3.Solver(); s.set('timeout', timeout)
    for a in sym.assumes: s.add(a)
    s.add(zbool(pre)); s.add(z3.Not(zbool(goal)))
    t = time.time(); r = s.check(); dt = time.time() - t
    print(f'  [{name}] {"PROVED" if r == z3.unsat else r} in {dt:.2f}s')
    return r, (s.model() if r == z3.sat else None)

def _p_sort(self, e, *ops):
    dim, nk = e.params['dimension'], e.params['num_keys']
    ks = [kind(v.aval.dtype) for v in e.invars]
    moved = [np.moveaxis(o, dim, -1) for o in ops]
    n = moved[0].shape[-1]
    outs = [np.empty(m.shape, dtype=object) for m in moved]
    for idx in np.ndindex(*moved[0].shape[:-1]):
        rows = [m[idx] for m in moved]
        def less(i, j):  # strict lexicographic on keys
            r = False
            for kk in range(nk - 1, -1, -1):
                a, b = rows[kk][i], rows[kk][j]
                if ks[kk] == 'b': lt, eq = b_and(b_not(a), b), cmp('eq', a, b, 'b')
                else: lt, eq = cmp('lt', a, b, ks[kk]), cmp('eq', a, b, ks[kk])
                r = b_or(lt, b_and(eq, r))
            return r
        ranks = []
        for i in range(n):
            r = 0
            for j in range(n):
                if j == i: continue
                before = less(j, i) if j > i else b_not(less(i, j))   # stable: ties keep index order
                r = arith('add', r, convert(before, 'b', 'i'), 'i')
            ranks.append(r)
        for oi, (row, k) in enumerate(zip(rows, ks)):
            for pos in range(n):
                v = row[n - 1]
                for i in range(n - 2, -1, -1):
                    v = ite(cmp('eq', ranks[i], pos, 'i'), row[i], v, k)
                outs[oi][idx + (pos,)] = v
    return [np.moveaxis(o, -1, dim) for o in outs]
Sym.p_sort = _p_sort
def _p_pow(self, e, a, b):
    # only constant base 2.0 ** small nonneg integer-valued exponent (prototype)
    def f(x, y):
        if is_c(x) and is_c(y): return float(x) ** float(y)
        assert is_c(x) and x == 2.0
        r = z3.RealVal(0)
        for t in range(0, 40): r = z3.If(y == t, z3.RealVal(2 ** t), r)
        return r
    return vmap2(f, a, b)
Sym.p_pow = _p_pow

def _p_and2(self, e, a, b):
    if self.k_out(e) == 'b': return vmap2(b_and, a, b)
    def f(x, y):
        if is_c(x) and is_c(y): return int(x) & int(y)
        if is_c(y) and (int(y) + 1) & int(y) == 0: return lift(x, 'i') % (int(y) + 1)   # prototype: x assumed >= 0
        raise NotImplementedError('int and')
    return vmap2(f, a, b)
Sym.p_and = _p_and2
def _p_srl(self, e, a, b):
    def f(x, y):
        if is_c(x) and is_c(y): return int(x) >> int(y)
        assert is_c(y); return lift(x, 'i') / (2 ** int(y))   # prototype: x assumed >= 0
    return vmap2(f, a, b)
Sym.p_shift_right_logical = _p_srl
