import warnings; warnings.filterwarnings('ignore')
import time, numpy as np, jax, jax.numpy as jnp, z3
from symjax import *
from jumanji.environments import Maze, Cleaner
from jumanji.environments.routing.maze.generator import RandomGenerator as MGen
from jumanji.environments.routing.cleaner.generator import RandomGenerator as CGen

def flat_sym(sym, tree, prefix):
    leaves, treedef = jax.tree_util.tree_flatten(tree)
    out = []
    for i, l in enumerate(leaves):
        l = jnp.asarray(l)
        out.append(sym.sym_array(f'{prefix}{i}', l.shape, l.dtype) if l.dtype != jnp.uint32 else np.empty(l.shape, dtype=object))
    return out, treedef

# ---------------- Maze ----------------
R, C = 5, 7
env = Maze(MGen(R, C), time_limit=9)
state, ts = env.reset(jax.random.PRNGKey(0))
act = env.action_spec.generate_value()
cj = jax.make_jaxpr(env.step)(state, act)
out_tree = jax.tree_util.tree_structure(jax.eval_shape(env.step, state, act))
sym = Sym()
t0 = time.time()
sleaves, sdef = flat_sym(sym, state, 's')
aleaves, adef = flat_sym(sym, act, 'a')
S = jax.tree_util.tree_unflatten(sdef, sleaves)
outs = sym.eval_closed(cj, *sleaves, *aleaves)
NS, TS = jax.tree_util.tree_unflatten(out_tree, outs)
print('maze symbolic eval', time.time() - t0)
row, col = S.agent_position.row[()], S.agent_position.col[()]
a = aleaves[0][()]
def legal_cell(r, c, walls):
    # spec: in grid and not wall
    conds = []
    for i in range(R):
        for j in range(C):
            conds.append(z3.And(r == i, c == j, z3.Not(zbool(walls[i, j]))))
    return z3.Or(conds)
inv = z3.And(legal_cell(row, col, S.walls), a >= 0, a <= 3)
# mask in state must equal spec mask (cached) -- part of invariant
MOVES = [(-1, 0), (0, 1), (1, 0), (0, -1)]
def spec_mask(r, c, walls, m): return legal_cell(r + MOVES[m][0], c + MOVES[m][1], walls)
inv = z3.And(inv, *[zbool(S.action_mask[m]) == spec_mask(row, col, S.walls, m) for m in range(4)])
nr, nc = NS.agent_position.row[()], NS.agent_position.col[()]
prove(sym, inv, legal_cell(nr, nc, NS.walls), name='maze: agent stays on free cell')
prove(sym, inv, z3.And(*[zbool(NS.action_mask[m]) == spec_mask(nr, nc, NS.walls, m) for m in range(4)]), name='maze: new mask == spec mask')
# transition agrees with reference model
exp_r = z3.If(zbool(S.action_mask[0]) if False else z3.BoolVal(True), row, row)
ref_r = row; ref_c = col
for m in range(4):
    ref_r = z3.If(z3.And(a == m, spec_mask(row, col, S.walls, m)), row + MOVES[m][0], ref_r)
    ref_c = z3.If(z3.And(a == m, spec_mask(row, col, S.walls, m)), col + MOVES[m][1], ref_c)
prove(sym, inv, z3.And(nr == ref_r, nc == ref_c), name='maze: move == reference')
st = TS.step_type[()]
prove(sym, inv, z3.Or(st == 1, st == 2), name='maze: step_type in {MID,LAST}')
sc = S.step_count[()]
prove(sym, inv, z3.Implies(sc + 1 >= 9, st == 2), name='maze: time limit => LAST')
prove(sym, inv, z3.Implies(st == 2, zreal(TS.discount[()]) == 0), name='maze: LAST => discount 0')
# negative test: claim something false
r, m = prove(sym, inv, nr == row, name='maze: (false claim) row never changes')

# ---------------- Cleaner non-square ----------------
R, C, A = 3, 5, 2
env = Cleaner(CGen(R, C, A), time_limit=9)
state, ts = env.reset(jax.random.PRNGKey(0))
act = env.action_spec.generate_value()
cj = jax.make_jaxpr(env.step)(state, act)
out_tree = jax.tree_util.tree_structure(jax.eval_shape(env.step, state, act))
sym = Sym()
sleaves, sdef = flat_sym(sym, state, 's'); aleaves, adef = flat_sym(sym, act, 'a')
S = jax.tree_util.tree_unflatten(sdef, sleaves)
t0 = time.time()
outs = sym.eval_closed(cj, *sleaves, *aleaves)
NS, TS = jax.tree_util.tree_unflatten(out_tree, outs)
print('cleaner symbolic eval', time.time() - t0)
def in_grid_free(r, c, grid):
    return z3.Or([z3.And(r == i, c == j, grid[i, j] != 2) for i in range(R) for j in range(C)])
inv = z3.And(*[in_grid_free(S.agents_locations[k, 0], S.agents_locations[k, 1], S.grid) for k in range(A)],
             *[z3.And(aleaves[0][k] >= 0, aleaves[0][k] <= 3) for k in range(A)],
             *[z3.And(S.grid[i, j] >= 0, S.grid[i, j] <= 2) for i in range(R) for j in range(C)])
inv = z3.And(inv, *[zbool(S.action_mask[k, m]) == in_grid_free(S.agents_locations[k, 0] + MOVES[m][0], S.agents_locations[k, 1] + MOVES[m][1], S.grid) for k in range(A) for m in range(4)])
goal = z3.And(*[zbool(NS.action_mask[k, m]) == in_grid_free(NS.agents_locations[k, 0] + MOVES[m][0], NS.agents_locations[k, 1] + MOVES[m][1], NS.grid) for k in range(A) for m in range(4)])
r, m = prove(sym, inv, goal, name='cleaner 3x5: new mask == spec mask (expected to FAIL: swapped bounds)')
if m is not None:
    print('   cex agents', [[m.eval(S.agents_locations[k, d]) for d in range(2)] for k in range(A)], 'actions', [m.eval(aleaves[0][k]) for k in range(A)])
    print('   grid', [[m.eval(S.grid[i, j], model_completion=True) for j in range(C)] for i in range(R)])
