import jax, jax.numpy as jnp, numpy as np
from jumanji.environments import Tetris
env = Tetris(num_rows=6, num_cols=6)
for s in range(40):
    st, ts = env.reset(jax.random.PRNGKey(s))
    if int(st.tetromino_index)==0:
        break
print('tetromino', np.array(ts.observation.tetromino))
print('mask', np.array(ts.observation.action_mask).astype(int))
st2, ts2 = env.step(st, jnp.array([1,0]))
print(np.array(st2.grid_padded), 'y', st2.y_position, ts2.step_type)
st2, ts2 = env.step(st, jnp.array([0,0]))
print(np.array(st2.grid_padded), 'y', st2.y_position, ts2.step_type)
