import warnings; warnings.filterwarnings('ignore')
import time, sys, numpy as np, jax, jax.numpy as jnp, z3, multiprocessing as mp
from symjax import *
import havoc
from jumanji.environments import JobShop
from jumanji.environments.packing.job_shop.generator import RandomGenerator as JGen
Z = lambda x: z3.BoolVal(bool(x)) if isinstance(x, (bool, np.bool_)) else (z3.IntVal(int(x)) if is_c(x) and not isinstance(x, float) else (z3.RealVal(x) if is_c(x) else x))
def flat_sym(sym, tree, prefix):
    leaves, treedef = jax.tree_util.tree_flatten(tree); out = []
    for i, l in enumerate(leaves):
        l = jnp.asarray(l); dt = jnp.int32 if l.dtype == jnp.uint32 else l.dtype
        out.append(sym.sym_array(f'{prefix}{i}', l.shape, dt))
    return out, treedef
J, M, O, D = [int(x) for x in sys.argv[1:5]]
env = JobShop(JGen(J, M, O, D))
state, ts = env.reset(jax.random.PRNGKey(0)); a = env.action_spec.generate_value()
cj = jax.make_jaxpr(env.step)(state, a); otree = jax.tree_util.tree_structure(jax.eval_shape(env.step, state, a))
sym = Sym(); sl, sd = flat_sym(sym, state, 's'); al, ad = flat_sym(sym, a, 'a')
S = jax.tree_util.tree_unflatten(sd, sl); A = al[0]
outs = sym.eval_closed(cj, *sl, *al); NS, TS = jax.tree_util.tree_unflatten(otree, outs)
def exists(St, j, o): return Z(St.ops_machine_ids[j, o]) != -1           # op exists in the instance
def sched(St, j, o): return z3.And(exists(St, j, o), z3.Not(Z(St.ops_mask[j, o])))
def start(St, j, o): return Z(St.scheduled_times[j, o])
def end(St, j, o): return start(St, j, o) + Z(St.ops_durations[j, o])
def INV(St):
    t = Z(St.step_count[()]); cs = [t >= 0]
    for j in range(J):
        for o in range(O):
            mid, du = Z(St.ops_machine_ids[j, o]), Z(St.ops_durations[j, o])
            cs += [z3.Or(z3.And(mid >= 0, mid < M, du >= 1, du <= D), z3.And(mid == -1, du == -1))]
            cs.append(z3.Implies(Z(St.ops_mask[j, o]), exists(St, j, o)))                                           # mask only on existing ops
            if o + 1 < O:
                cs.append(z3.Implies(exists(St, j, o + 1), exists(St, j, o)))                                        # ops of a job form a prefix
                cs.append(z3.Implies(sched(St, j, o + 1), z3.And(sched(St, j, o), end(St, j, o) <= start(St, j, o + 1))))   # job order, no overlap within a job
            cs.append(z3.Implies(sched(St, j, o), z3.And(start(St, j, o) >= 0, start(St, j, o) < t)))                # scheduled in the past
            # a scheduled op is either finished (end <= t) or is exactly what its machine is running now
            running = z3.Or(*[z3.And(mid == m, Z(St.machines_job_ids[m]) == j, Z(St.machines_remaining_times[m]) > 0, end(St, j, o) == t + Z(St.machines_remaining_times[m])) for m in range(M)])
            cs.append(z3.Implies(sched(St, j, o), z3.Or(end(St, j, o) <= t, running)))
    for m in range(M):
        rem, jid = Z(St.machines_remaining_times[m]), Z(St.machines_job_ids[m])
        cs += [rem >= 0, rem <= D, jid >= 0, jid <= J]
        # a busy machine runs the LAST scheduled op of its job, which is an op for this machine
        cs.append(z3.Implies(rem > 0, z3.Or(*[z3.And(jid == j, sched(St, j, o), Z(St.ops_machine_ids[j, o]) == m, end(St, j, o) == t + rem,
                                                     (z3.BoolVal(True) if o + 1 == O else z3.Not(sched(St, j, o + 1)))) for j in range(J) for o in range(O)])))
        for m2 in range(m + 1, M):   # a job runs on at most one machine
            cs.append(z3.Not(z3.And(rem > 0, Z(St.machines_remaining_times[m2]) > 0, jid == Z(St.machines_job_ids[m2]))))
    # C06 proper: two different scheduled ops on the same machine never overlap
    ops = [(j, o) for j in range(J) for o in range(O)]
    for i, (j, o) in enumerate(ops):
        for (j2, o2) in ops[i + 1:]:
            cs.append(z3.Implies(z3.And(sched(St, j, o), sched(St, j2, o2), Z(St.ops_machine_ids[j, o]) == Z(St.ops_machine_ids[j2, o2])),
                                 z3.Or(end(St, j, o) <= start(St, j2, o2), end(St, j2, o2) <= start(St, j, o))))
    return cs
# cached mask consistency (part of Inv): state.action_mask is the rule
def js_legal(St, m, j):
    if j == J: return z3.BoolVal(True)
    conds = []
    for o in range(O):
        is_next = z3.And(Z(St.ops_mask[j, o]), *[z3.Not(Z(St.ops_mask[j, p])) for p in range(o)])
        conds.append(z3.And(is_next, Z(St.ops_machine_ids[j, o]) == m))
    running = z3.Or(*[z3.And(Z(St.machines_job_ids[q]) == j, Z(St.machines_remaining_times[q]) > 0) for q in range(M)])
    return z3.And(Z(St.machines_remaining_times[m]) == 0, z3.Or(*conds), z3.Not(running))
maskc = [Z(S.action_mask[m, j]) == js_legal(S, m, j) for m in range(M) for j in range(J + 1)]
legal = z3.And(*[z3.Or(*[z3.And(A[m] == j, js_legal(S, m, j)) for j in range(J + 1)]) for m in range(M)])
pre = z3.And(*INV(S), *maskc, legal)
goal = INV(NS); print('conjuncts', len(goal))
def work(i):
    s = z3.Solver(); s.set('timeout', 300000); s.add(*sym.assumes); s.add(pre, Z(TS.step_type[()]) != 2, z3.Not(goal[i])); t = time.time(); r = s.check(); return i, str(r), round(time.time() - t, 2)
if __name__ == '__main__':
    s = z3.Solver(); s.add(*sym.assumes); s.add(pre, Z(TS.step_type[()]) != 2); print('cover:', s.check())
    t0 = time.time()
    with mp.get_context('fork').Pool(14) as p: res = p.map(work, range(len(goal)))
    bad = [r for r in res if r[1] != 'unsat']
    print(f'JobShop {J}x{M}x{O}x{D}: schedule-feasibility invariant preserved by any legal joint action: proved', len(res) - len(bad), 'of', len(res), 'max', max(r[2] for r in res), 's wall', round(time.time() - t0, 1), 'not proved', bad[:6])
    if bad and bad[0][1] == 'sat':
        i = bad[0][0]; s = z3.Solver(); s.add(*sym.assumes); s.add(pre, Z(TS.step_type[()]) != 2, z3.Not(goal[i])); s.check(); m = s.model(); ev = lambda x: m.eval(Z(x), model_completion=True)
        for nm in ('ops_machine_ids', 'ops_durations', 'ops_mask', 'scheduled_times'): print(' ', nm, [[ev(getattr(S, nm)[j, o]) for o in range(O)] for j in range(J)])
        print('  machines', [(ev(S.machines_job_ids[q]), ev(S.machines_remaining_times[q])) for q in range(M)], 't', ev(S.step_count[()]), 'action', [ev(A[q]) for q in range(M)])
        print('  failed:', str(goal[i])[:300])
