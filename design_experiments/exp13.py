import warnings; warnings.filterwarnings('ignore')
import time, sys, numpy as np, jax, jax.numpy as jnp, z3
from symjax import *
import havoc
from jumanji.environments import LevelBasedForaging
from jumanji.environments.routing.lbf.generator import RandomGenerator as LGen
Z = lambda x: z3.BoolVal(bool(x)) if isinstance(x, (bool, np.bool_)) else (z3.IntVal(int(x)) if is_c(x) and not isinstance(x, float) else (z3.RealVal(x) if is_c(x) else x))
def flat_sym(sym, tree, prefix):
    leaves, treedef = jax.tree_util.tree_flatten(tree); out = []
    for i, l in enumerate(leaves):
        l = jnp.asarray(l); dt = jnp.int32 if l.dtype == jnp.uint32 else l.dtype
        out.append(sym.sym_array(f'{prefix}{i}', l.shape, dt))
    return out, treedef
G, NA, NF = 6, 2, 2
env = LevelBasedForaging(LGen(grid_size=G, fov=2, num_agents=NA, num_food=NF, force_coop=False), time_limit=20)
state, ts = env.reset(jax.random.PRNGKey(0)); a = env.action_spec.generate_value()
cj = jax.make_jaxpr(env.step)(state, a); otree = jax.tree_util.tree_structure(jax.eval_shape(env.step, state, a))
sym = Sym(); sl, sd = flat_sym(sym, state, 's'); al, ad = flat_sym(sym, a, 'a')
S = jax.tree_util.tree_unflatten(sd, sl); A = al[0]
t0 = time.time(); outs = sym.eval_closed(cj, *sl, *al); NS, TS = jax.tree_util.tree_unflatten(otree, outs); print('lbf eval %.2fs' % (time.time() - t0))
MOVES = [(0, 0), (-1, 0), (1, 0), (0, -1), (0, 1), (0, 0)]
def pos(St, ag): return Z(St.agents.position[ag, 0]), Z(St.agents.position[ag, 1])
def fpos(St, f): return Z(St.food_items.position[f, 0]), Z(St.food_items.position[f, 1])
def legal(St, ag, act):
    r, c = pos(St, ag); nr, nc = r + MOVES[act][0], c + MOVES[act][1]
    inb = z3.And(nr >= 0, nr < G, nc >= 0, nc < G)
    other = z3.Or(*[z3.And(pos(St, o)[0] == nr, pos(St, o)[1] == nc, Z(St.agents.id[o]) != Z(St.agents.id[ag])) for o in range(NA)])
    food = z3.Or(*[z3.And(fpos(St, f)[0] == nr, fpos(St, f)[1] == nc, z3.Not(Z(St.food_items.eaten[f]))) for f in range(NF)])
    free = z3.And(inb, z3.Not(other), z3.Not(food))
    if act == 5:
        absz = lambda x: z3.If(x >= 0, x, -x)
        adj = z3.Or(*[z3.And(absz(fpos(St, f)[0] - r) + absz(fpos(St, f)[1] - c) == 1, z3.Not(Z(St.food_items.eaten[f]))) for f in range(NF)])
        return z3.And(free, adj)
    return free
def INV(St):
    cs = []
    for ag in range(NA):
        r, c = pos(St, ag); cs += [r >= 0, r < G, c >= 0, c < G, Z(St.agents.id[ag]) == ag, Z(St.agents.level[ag]) >= 1]
        for o in range(ag + 1, NA): cs.append(z3.Or(pos(St, o)[0] != r, pos(St, o)[1] != c))
        for f in range(NF): cs.append(z3.Or(Z(St.food_items.eaten[f]), fpos(St, f)[0] != r, fpos(St, f)[1] != c))
    for f in range(NF):
        r, c = fpos(St, f); cs += [r >= 0, r < G, c >= 0, c < G, Z(St.food_items.level[f]) >= 1]
    return z3.And(*cs)
pre = z3.And(INV(S), *[z3.And(A[g] >= 0, A[g] <= 5) for g in range(NA)], Z(S.step_count[()]) >= 0, Z(S.step_count[()]) < 20)
def check(clauses, name, timeout=120000):
    bad = []; t0 = time.time()
    for nm, c in clauses:
        s = z3.Solver(); s.set('timeout', timeout); s.add(*sym.assumes); s.add(pre, z3.Not(c)); r = s.check()
        if r != z3.unsat: bad.append((nm, str(r)))
    print(f'{name}: {len(clauses) - len(bad)}/{len(clauses)} proved in {time.time()-t0:.1f}s', ('NOT PROVED: ' + str(bad[:5])) if bad else '')
check([(f'mask[{g},{act}]', Z(TS.observation.action_mask[g, act]) == legal(NS, g, act)) for g in range(NA) for act in range(6)], 'LBF C04: obs mask == legal(new state)')
check([(f'inv{i}', c) for i, c in enumerate(INV(NS).children())], 'LBF C07: occupancy invariant preserved by ANY joint action')
# C05: an illegal move leaves the agent where it was
cl = []
for g in range(NA):
    for act in range(1, 5):
        cl.append((f'illegal[{g},{act}]', z3.Implies(z3.And(A[g] == act, z3.Not(legal(S, g, act))), z3.And(pos(NS, g)[0] == pos(S, g)[0], pos(NS, g)[1] == pos(S, g)[1]))))
check(cl, 'LBF C05: masked-out move is ignored')
