import jumanji.wrappers as W, jax
src_auto = W.AutoResetWrapper._auto_reset
def bad_auto_reset(self, state, timestep):
    _, key = jax.random.split(state.key)     # mutation: other half of the split
    state, reset_timestep = self._env.reset(key)
    timestep = self._maybe_add_obs_to_extras(timestep)
    timestep = timestep.replace(observation=reset_timestep.observation)
    return state, timestep
W.AutoResetWrapper._auto_reset = bad_auto_reset
exec(open('exp5.py').read())
