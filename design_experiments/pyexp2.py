import warnings; warnings.filterwarnings('ignore')
exec(open('pyexp.py').read().split("# ---------- obligation A")[0])
import pickle, copy
def outcomes(paths): return [(('ret', o[1]) if o[0] == 'ret' else ('RAISES', type(o[1]).__name__)) for _, o in paths]
# replace() without arguments yields an equal spec  /  replace(name=...) changes only the name  (scalar bounds so that == is defined today)
lo, hi = sym('lo', (), jnp.int32), sym('hi', (), jnp.int32)
for pc0, out0 in explore(lambda: specs.BoundedArray((2, 3), jnp.int32, lo, hi, 'x')):
    if out0[0] != 'ret': continue
    a = out0[1]; Ctx.base = [pc0]
    paths = explore(lambda: a.replace() == a); print('BoundedArray.replace() == self :', outcomes(paths))
    paths = explore(lambda: a.replace(name='y')); b = paths[0][1][1]
    s = z3.Solver(); s.add(*ENG.assumes); s.add(pc0); s.add(z3.Not(z3.And(b.minimum._el[()] == lo._el[()], b.maximum._el[()] == hi._el[()])))
    print('replace(name="y"): name', b.name, 'shape', b.shape, 'dtype', b.dtype, 'bounds unchanged:', s.check())
    r = a.__reduce__(); c = r[0](*r[1])
    paths = explore(lambda: c == a); print('__reduce__ round trip == self :', outcomes(paths))
# DiscreteArray / MultiDiscreteArray with symbolic num_values
nv = sym('nv', (2,), jnp.int32)
for pc0, out0 in explore(lambda: specs.MultiDiscreteArray(nv, jnp.int32, 'a')):
    print('MultiDiscreteArray ctor path:', out0[0], type(out0[1]).__name__, 'under', str(z3.simplify(pc0))[:80])
    if out0[0] != 'ret': continue
    m = out0[1]; Ctx.base = [pc0]
    v = sym('v', (2,), jnp.int32)
    paths = explore(lambda: m.validate(v))
    acc = z3.Or(*[pc for pc, o in paths if o[0] == 'ret'])
    exp = z3.And(*[z3.And(v._el[i] >= 0, v._el[i] < nv._el[i]) for i in range(2)])
    s = z3.Solver(); s.add(*ENG.assumes); s.add(pc0, acc != exp); print('  validate accepts <=> 0 <= v < num_values :', 'PROVED' if s.check() == z3.unsat else 'FAILED')
    g = m.generate_value(); paths = explore(lambda: m.validate(g)); print('  validate(generate_value()):', [o[0] for _, o in paths])
    nv2 = sym('nw', (2,), jnp.int32)
    for pc1, out1 in explore(lambda: specs.MultiDiscreteArray(nv2, jnp.int32, 'a')):
        if out1[0] != 'ret': continue
        m2 = out1[1]; paths = explore(lambda: m == m2)
        eqc = z3.Or(*[pc for pc, o in paths if o[0] == 'ret' and o[1] is True] or [z3.BoolVal(False)])
        s = z3.Solver(); s.add(*ENG.assumes); s.add(pc0, pc1, eqc != z3.And(*[nv._el[i] == nv2._el[i] for i in range(2)]))
        print('  m == m2  <=>  num_values equal (same shape):', 'PROVED' if s.check() == z3.unsat else 'FAILED', outcomes(paths)[:3])
