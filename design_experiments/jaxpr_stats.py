import jax, jax.numpy as jnp, numpy as np, collections, sys, warnings
warnings.filterwarnings('ignore')
import jumanji
from jumanji.environments import *
from jumanji.environments.logic.graph_coloring.generator import RandomGenerator as GCGen
from jumanji.environments.logic.minesweeper.generator import UniformSamplingGenerator
from jumanji.environments.logic.rubiks_cube.generator import ScramblingGenerator
from jumanji.environments.logic.sliding_tile_puzzle.generator import RandomWalkGenerator as STGen
from jumanji.environments.packing.knapsack.generator import RandomGenerator as KGen
from jumanji.environments.packing.job_shop.generator import RandomGenerator as JGen, ToyGenerator as JToy
from jumanji.environments.packing.bin_pack.generator import RandomGenerator as BGen, ToyGenerator as BToy
from jumanji.environments.packing.flat_pack.generator import RandomFlatPackGenerator
from jumanji.environments.routing.cleaner.generator import RandomGenerator as CGen
from jumanji.environments.routing.maze.generator import RandomGenerator as MGen, ToyGenerator as MToy
from jumanji.environments.routing.tsp.generator import UniformGenerator as TGen
from jumanji.environments.routing.cvrp.generator import UniformGenerator as CVGen
from jumanji.environments.routing.connector.generator import RandomWalkGenerator as CoGen
from jumanji.environments.routing.sokoban.generator import ToyGenerator as SToy
from jumanji.environments.logic.sudoku.generator import DummyGenerator as SuDummy

def count(jaxpr, c, depth=0):
    n = 0
    for e in jaxpr.eqns:
        c[e.primitive.name] += 1
        n += 1
        for v in e.params.values():
            subs = []
            if hasattr(v, 'jaxpr'): subs.append(v.jaxpr if hasattr(v.jaxpr,'eqns') else v)
            elif isinstance(v, (list, tuple)):
                for x in v:
                    if hasattr(x, 'jaxpr'): subs.append(x.jaxpr)
            for s in subs:
                if hasattr(s, 'eqns'): n += count(s, c, depth+1)
                elif hasattr(s, 'jaxpr'): n += count(s.jaxpr, c, depth+1)
    return n

envs = {
 'Game2048-3': lambda: Game2048(board_size=3),
 'GraphColoring-4': lambda: GraphColoring(GCGen(4, 0.5)),
 'Minesweeper-3x4': lambda: Minesweeper(UniformSamplingGenerator(3,4,3)),
 'RubiksCube-2': lambda: RubiksCube(ScramblingGenerator(2, 5), time_limit=7),
 'Sliding-3': lambda: SlidingTilePuzzle(STGen(3, 5), time_limit=7),
 'Sudoku': lambda: Sudoku(SuDummy()),
 'Knapsack-5': lambda: Knapsack(KGen(5, 1.5)),
 'JobShop-3x2': lambda: JobShop(JGen(3,2,2,3)),
 'BinPack-toy': lambda: BinPack(BGen(max_num_items=4, max_num_ems=6, split_num_same_items=1), obs_num_ems=4),
 'FlatPack-2x2': lambda: FlatPack(RandomFlatPackGenerator(2,2)),
 'Tetris-5x5': lambda: Tetris(5,5,time_limit=7),
 'Cleaner-3x5': lambda: Cleaner(CGen(3,5,2), time_limit=7),
 'Maze-5x7': lambda: Maze(MGen(5,7), time_limit=7),
 'TSP-4': lambda: TSP(TGen(4)),
 'CVRP-4': lambda: CVRP(CVGen(4, 10, 5)),
 'Connector-4x2': lambda: Connector(CoGen(4,2), time_limit=7),
 'Snake-4x5': lambda: Snake(4,5,time_limit=7),
 'Sokoban-toy': lambda: Sokoban(SToy(), time_limit=7),
 'PacMan': lambda: PacMan(),
 'LBF': lambda: LevelBasedForaging(),
 'RobotWarehouse': lambda: RobotWarehouse(),
 'MMST': lambda: MMST(),
 'MultiCVRP': lambda: MultiCVRP(),
}
allprims = collections.Counter()
for name, mk in envs.items():
    try:
        env = mk()
        key = jax.random.PRNGKey(0)
        jr = jax.make_jaxpr(env.reset)(key)
        state, ts = env.reset(key)
        a = env.action_spec.generate_value()
        js = jax.make_jaxpr(env.step)(state, a)
        cr, cs = collections.Counter(), collections.Counter()
        nr, ns = count(jr.jaxpr, cr), count(js.jaxpr, cs)
        allprims.update(cs); 
        nin = sum(int(np.prod(v.aval.shape)) for v in js.jaxpr.invars)
        print(f'{name:18s} reset eqns={nr:6d} step eqns={ns:6d} step-in-scalars={nin:6d} effects={js.effects} while={cs["while"]} scan={cs["scan"]} cond={cs["cond"]} sort={cs["sort"]} rng={cs["random_bits"]+cs["threefry2x32"]}')
        if '-v' in sys.argv: print('   step prims:', dict(cs))
        if '-r' in sys.argv: print('   reset prims:', dict(cr))
    except Exception as e:
        print(name, 'FAILED', type(e).__name__, str(e)[:200])
print(sorted(allprims.items(), key=lambda kv:-kv[1]))
