import warnings; warnings.filterwarnings('ignore')
import time, sys, collections, numpy as np, jax, jax.numpy as jnp, z3
exec(open('jaxpr_stats.py').read().split("allprims = collections.Counter()")[0])
import symjax
from symjax import *
# havoc fallback for unsupported primitives
missing = collections.Counter()
_orig_eval = Sym.eval
def eval_with_havoc(self, jaxpr, consts, *args):
    env = {}
    def read(v):
        if isinstance(v, core.Literal): return obj(v.val)
        return env[v]
    for v, c in zip(jaxpr.constvars, consts): env[v] = c
    for v, a in zip(jaxpr.invars, args): env[v] = a
    for e in jaxpr.eqns:
        ins = [read(v) for v in e.invars]
        h = getattr(self, 'p_' + e.primitive.name.replace('-', '_'), None)
        outs = None
        if h is not None:
            try:
                outs = h(e, *ins)
                if not e.primitive.multiple_results: outs = [outs]
            except (NotImplementedError, AssertionError, z3.Z3Exception, TypeError, AttributeError, KeyError, IndexError, ValueError) as ex:
                missing[e.primitive.name + ' (' + type(ex).__name__ + ')'] += 1; outs = None
        else: missing[e.primitive.name] += 1
        if outs is None:
            outs = []
            for v in e.outvars:
                k = kind(v.aval.dtype); arr = np.empty(v.aval.shape, dtype=object)
                for idx in np.ndindex(*v.aval.shape): arr[idx] = self.fresh_var('havoc_' + e.primitive.name, k if k != 'k' else 'i')
                outs.append(arr)
        for v, o in zip(e.outvars, outs):
            o = as_arr(o) if not isinstance(o, np.ndarray) else o
            if o.shape != tuple(v.aval.shape):
                missing[e.primitive.name + ' (shape)'] += 1
                arr = np.empty(v.aval.shape, dtype=object)
                for idx in np.ndindex(*v.aval.shape): arr[idx] = self.fresh_var('havoc', 'i')
                o = arr
            env[v] = o
    return [read(v) for v in jaxpr.outvars]
Sym.eval = eval_with_havoc
def flat_sym(sym, tree, prefix):
    leaves, treedef = jax.tree_util.tree_flatten(tree); out = []
    for i, l in enumerate(leaves):
        l = jnp.asarray(l); dt = jnp.int32 if l.dtype == jnp.uint32 else l.dtype
        out.append(sym.sym_array(f'{prefix}{i}', l.shape, dt))
    return out, treedef
only = sys.argv[1:] 
for name, mk in envs.items():
    if only and not any(o in name for o in only): continue
    try:
        env = mk(); key = jax.random.PRNGKey(0)
        state, ts = env.reset(key); a = env.action_spec.generate_value()
        cj = jax.make_jaxpr(env.step)(state, a)
        otree = jax.tree_util.tree_structure(jax.eval_shape(env.step, state, a))
        sym = Sym(while_bound=12); sl, sd = flat_sym(sym, state, 's'); al, ad = flat_sym(sym, a, 'a')
        before = sum(missing.values()); t0 = time.time()
        outs = sym.eval_closed(cj, *sl, *al); dt = time.time() - t0
        NS, TS = jax.tree_util.tree_unflatten(otree, outs)
        st = TS.step_type[()]; disc = TS.discount
        s = z3.Solver(); s.set('timeout', 60000); s.add(*sym.assumes)
        goal = z3.And(z3.Or(zint(st) == 1, zint(st) == 2), *[z3.And(zreal(d) >= 0, zreal(d) <= 1) for d in disc.reshape(-1)],
                      z3.Implies(zint(st) == 1, z3.Or(*[zreal(d) != 0 for d in disc.reshape(-1)])))
        if 'LBF' not in name and 'LevelBased' not in name: goal = z3.And(goal, z3.Implies(zint(st) == 2, z3.And(*[zreal(d) == 0 for d in disc.reshape(-1)])))
        s.add(z3.Not(goal)); t1 = time.time(); r = s.check()
        print(f'{name:18s} sym-eval {dt:6.2f}s havocked-eqns={sum(missing.values())-before:3d}  C03 step clauses (ALL states): {"PROVED" if r == z3.unsat else r} in {time.time()-t1:.2f}s')
    except Exception as ex:
        import traceback; print(name, 'FAILED', type(ex).__name__, str(ex)[:300]); traceback.print_exc(limit=3)
print('missing/havocked primitives:', dict(missing))
