import warnings; warnings.filterwarnings('ignore')
import time, numpy as np, jax, jax.numpy as jnp, z3
from symjax import *
from jumanji.environments.logic.rubiks_cube import utils as ru
from jumanji.environments.logic.rubiks_cube.constants import Face, CubeMovementAmount
# permutation extraction: feed a cube of distinct integer *constants* tagged as symbols? use z3 Int vars and read back syntactically.
for n in (2, 3, 4, 5):
    t0 = time.time()
    sym = Sym()
    cube = sym.sym_array('c', (6, n, n), jnp.int8)
    ids = {cube[idx].get_id(): idx for idx in np.ndindex(6, n, n)}
    moves = ru.generate_all_moves(n)
    perms = []
    for mv in moves:
        cj = jax.make_jaxpr(mv)(jnp.zeros((6, n, n), jnp.int8))
        (out,) = sym.eval_closed(cj, cube)
        perm = {}
        for idx in np.ndindex(6, n, n):
            t = out[idx]
            assert not is_c(t) and t.get_id() in ids, 'output is not a bare input variable'
            perm[idx] = ids[t.get_id()]
        assert sorted(perm.values()) == sorted(ids.values()), 'not a permutation'
        perms.append(perm)
    def compose(p, q):  # apply p then q : out[idx] = (q∘p)
        return {idx: p[q[idx]] for idx in q}
    ident = {idx: idx for idx in np.ndindex(6, n, n)}
    nm = len(moves); ok = True
    for base in range(0, nm, 3):
        cw, ccw, half = perms[base], perms[base + 1], perms[base + 2]
        ok &= compose(cw, ccw) == ident and compose(ccw, cw) == ident
        ok &= compose(cw, cw) == half
        ok &= compose(compose(cw, cw), compose(cw, cw)) == ident
    print(f'n={n}: {nm} moves are pure sticker permutations; group identities hold: {ok}  ({time.time()-t0:.1f}s)')
    # rotate_cube (lax.switch over symbolic action) equals the selected move
    cj = jax.make_jaxpr(ru.rotate_cube)(jnp.zeros((6, n, n), jnp.int8), jnp.int32(0))
    a = z3.Int('a'); aa = np.empty((), dtype=object); aa[()] = a
    (out,) = sym.eval_closed(cj, cube, aa)
    if n <= 3:
        goal = z3.And(*[z3.Implies(a == m, z3.And(*[lift(out[idx], 'i') == cube[perms[m][idx]] for idx in np.ndindex(6, n, n)])) for m in range(nm)])
        prove(sym, z3.And(a >= 0, a < nm), goal, name=f'rotate_cube n={n} dispatches to the right move')
