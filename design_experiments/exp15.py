import warnings; warnings.filterwarnings('ignore')
import time, sys, numpy as np, jax, jax.numpy as jnp, z3, multiprocessing as mp
from symjax import *
import havoc
from jumanji.environments import Sokoban
from jumanji.environments.routing.sokoban.generator import ToyGenerator as SToy
Z = lambda x: z3.BoolVal(bool(x)) if isinstance(x, (bool, np.bool_)) else (z3.IntVal(int(x)) if is_c(x) and not isinstance(x, float) else (z3.RealVal(x) if is_c(x) else x))
def flat_sym(sym, tree, prefix):
    leaves, treedef = jax.tree_util.tree_flatten(tree); out = []
    for i, l in enumerate(leaves):
        l = jnp.asarray(l); dt = jnp.int32 if l.dtype == jnp.uint32 else l.dtype
        out.append(sym.sym_array(f'{prefix}{i}', l.shape, dt))
    return out, treedef
env = Sokoban(SToy(), time_limit=50)
state, ts = env.reset(jax.random.PRNGKey(0)); a = env.action_spec.generate_value()
cj = jax.make_jaxpr(env.step)(state, a); otree = jax.tree_util.tree_structure(jax.eval_shape(env.step, state, a))
sym = Sym(); sl, sd = flat_sym(sym, state, 's'); al, ad = flat_sym(sym, a, 'a')
S = jax.tree_util.tree_unflatten(sd, sl); av = al[0][()]
t0 = time.time(); outs = sym.eval_closed(cj, *sl, *al); NS, TS = jax.tree_util.tree_unflatten(otree, outs); print('sokoban eval %.1fs' % (time.time() - t0))
G = 10; cells = [(i, j) for i in range(G) for j in range(G)]
def INV(St):
    V, F = St.variable_grid, St.fixed_grid; r, c = Z(St.agent_location[0]), Z(St.agent_location[1])
    cs = [z3.Sum([z3.If(Z(V[p]) == 4, 1, 0) for p in cells]) == 4, z3.Sum([z3.If(Z(V[p]) == 3, 1, 0) for p in cells]) == 1,
          z3.Or(*[z3.And(r == p[0], c == p[1], Z(V[p]) == 3) for p in cells])]
    for p in cells:
        cs.append(z3.Or(Z(V[p]) == 0, Z(V[p]) == 3, Z(V[p]) == 4)); cs.append(z3.Or(Z(F[p]) == 0, Z(F[p]) == 1, Z(F[p]) == 2))
        cs.append(z3.Implies(Z(F[p]) == 1, Z(V[p]) == 0))
    return cs
pre = z3.And(*INV(S), av >= 0, av <= 3, Z(S.step_count[()]) >= 0, Z(S.step_count[()]) < 50)
goal = INV(NS) + [Z(NS.fixed_grid[p]) == Z(S.fixed_grid[p]) for p in cells]
print('conjuncts', len(goal))
def work(i):
    s = z3.Solver(); s.set('timeout', 300000); s.add(*sym.assumes); s.add(pre, z3.Not(goal[i])); t = time.time(); r = s.check(); return i, str(r), round(time.time() - t, 2)
if __name__ == '__main__':
    with mp.get_context('fork').Pool(14) as p: res = p.map(work, range(len(goal)))
    bad = [r for r in res if r[1] != 'unsat']
    print('Sokoban C07 (one agent, 4 boxes, nothing on walls, fixed grid frozen) under ANY action: proved', len(res) - len(bad), 'of', len(res), 'max', max(r[2] for r in res), 's; not proved', bad[:4])
