import warnings; warnings.filterwarnings('ignore')
import time, sys, numpy as np, jax, jax.numpy as jnp, z3, multiprocessing as mp
from symjax import *
import havoc
from jumanji.environments import FlatPack
from jumanji.environments.packing.flat_pack.generator import RandomFlatPackGenerator
Z = lambda x: z3.BoolVal(bool(x)) if isinstance(x, (bool, np.bool_)) else (z3.IntVal(int(x)) if is_c(x) and not isinstance(x, float) else (z3.RealVal(x) if is_c(x) else x))
def flat_sym(sym, tree, prefix):
    leaves, treedef = jax.tree_util.tree_flatten(tree); out = []
    for i, l in enumerate(leaves):
        l = jnp.asarray(l); dt = jnp.int32 if l.dtype == jnp.uint32 else l.dtype
        out.append(sym.sym_array(f'{prefix}{i}', l.shape, dt))
    return out, treedef
env = FlatPack(RandomFlatPackGenerator(2, 2)); NB, R, C = env.num_blocks, env.num_rows, env.num_cols
state, ts = env.reset(jax.random.PRNGKey(0)); a = env.action_spec.generate_value()
# the mask function alone (clause 1 of C04): _make_action_mask(grid, blocks, placed)
cj = jax.make_jaxpr(env._make_action_mask)(state.grid, state.blocks, state.placed_blocks)
sym = Sym()
grid = sym.sym_array('g', (R, C), jnp.int32, lo=0, hi=NB); blocks = sym.sym_array('b', (NB, 3, 3), jnp.int32, lo=0, hi=NB); placed = sym.sym_array('p', (NB,), jnp.bool_)
t0 = time.time(); (mask,) = sym.eval_closed(cj, grid, blocks, placed); print('flatpack mask eval %.1fs' % (time.time() - t0), mask.shape)
def rot(b, k):   # rule: rotation k quarter turns (spec written independently: index maps)
    B = [[blocks[b, i, j] for j in range(3)] for i in range(3)]
    if k == 0: f = lambda i, j: B[i][j]
    if k == 1: f = lambda i, j: B[j][2 - i]          # jnp.flip(transpose, axis=1) -> out[i][j] = in[2-j][i] ; determine by test below
    if k == 2: f = lambda i, j: B[2 - i][2 - j]
    if k == 3: f = lambda i, j: B[2 - j][i]
    return f
# determine the intended rotation direction from the real rotate_block on a concrete block (documentation of the action space: 0, 90, 180, 270 degrees)
from jumanji.environments.packing.flat_pack.utils import rotate_block
test = jnp.arange(9).reshape(3, 3); r1 = np.asarray(rotate_block(test, 1)); 
dir1 = 'B[2-j][i]' if r1[0][0] == 6 else 'B[j][2-i]'
print('rotation 1 of arange(9):', r1.tolist(), '->', dir1)
def rotf(b, k):
    B = [[blocks[b, i, j] for j in range(3)] for i in range(3)]
    cw = (dir1 == 'B[2-j][i]')
    if k == 0: return lambda i, j: B[i][j]
    if k == 2: return lambda i, j: B[2 - i][2 - j]
    if (k == 1) == cw: return lambda i, j: B[2 - j][i]
    return lambda i, j: B[j][2 - i]
clauses = []
for b in range(NB):
    for k in range(4):
        f = rotf(b, k)
        for r in range(R - 2):
            for c in range(C - 2):
                overlap = z3.Or(*[z3.And(f(i, j) != 0, grid[r + i, c + j] > 0) for i in range(3) for j in range(3)])
                clauses.append(((b, k, r, c), Z(mask[b, k, r, c]) == z3.And(z3.Not(Z(placed[b])), z3.Not(overlap))))
def work(i):
    s = z3.Solver(); s.set('timeout', 120000); s.add(*sym.assumes); s.add(z3.Not(clauses[i][1])); t = time.time(); r = s.check(); return clauses[i][0], str(r), round(time.time() - t, 2)
if __name__ == '__main__':
    t0 = time.time()
    with mp.get_context('fork').Pool(14) as p: res = p.map(work, range(len(clauses)))
    bad = [r for r in res if r[1] != 'unsat']
    print('FlatPack 2x2 blocks: mask == rule for all', len(clauses), 'placements, all grids/blocks: proved', len(res) - len(bad), 'max', max(r[2] for r in res), 's wall', round(time.time() - t0, 1), 'not proved', bad[:5])
