import collections, numpy as np, z3
from jax import core
from symjax import *
# havoc fallback for unsupported primitives
missing = collections.Counter()
_orig_eval = Sym.eval
def eval_with_havoc(self, jaxpr, consts, *args):
    env = {}
    def read(v):
        if isinstance(v, core.Literal): return obj(v.val)
        return env[v]
    for v, c in zip(jaxpr.constvars, consts): env[v] = c
    for v, a in zip(jaxpr.invars, args): env[v] = a
    for e in jaxpr.eqns:
        ins = [read(v) for v in e.invars]
        h = getattr(self, 'p_' + e.primitive.name.replace('-', '_'), None)
        outs = None
        if h is not None:
            try:
                outs = h(e, *ins)
                if not e.primitive.multiple_results: outs = [outs]
            except (NotImplementedError, AssertionError, z3.Z3Exception, TypeError, AttributeError, KeyError, IndexError, ValueError) as ex:
                missing[e.primitive.name + ' (' + type(ex).__name__ + ')'] += 1; outs = None
        else: missing[e.primitive.name] += 1
        if outs is None:
            outs = []
            for v in e.outvars:
                k = kind(v.aval.dtype); arr = np.empty(v.aval.shape, dtype=object)
                for idx in np.ndindex(*v.aval.shape): arr[idx] = self.fresh_var('havoc_' + e.primitive.name, k if k != 'k' else 'i')
                outs.append(arr)
        for v, o in zip(e.outvars, outs):
            o = as_arr(o) if not isinstance(o, np.ndarray) else o
            if o.shape != tuple(v.aval.shape):
                missing[e.primitive.name + ' (shape)'] += 1
                arr = np.empty(v.aval.shape, dtype=object)
                for idx in np.ndindex(*v.aval.shape): arr[idx] = self.fresh_var('havoc', 'i')
                o = arr
            env[v] = o
    return [read(v) for v in jaxpr.outvars]
Sym.eval = eval_with_havoc
