(set-logic ALL)
(define-fun DIGITS () RegLan (re.+ (re.range "0" "9")))
(declare-const d String)
(assert (str.in_re d DIGITS))
; canonical (no leading zero unless "0") => from_int(to_int(d)) = d
(assert (or (= d "0") (not (str.prefixof "0" d))))
(assert (not (= (str.from_int (str.to_int d)) d)))
(check-sat)
