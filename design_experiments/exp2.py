import warnings; warnings.filterwarnings('ignore')
import time, numpy as np, jax, jax.numpy as jnp, z3
from symjax import *
from jumanji.environments.logic.game_2048 import utils as u
from jumanji.environments.logic.sudoku import utils as su

# ---- 2048 move_left_row against a declarative spec, all rows of length n ----
for n in (3, 4, 5):
    row0 = jnp.zeros((n,), jnp.int32)
    cj = jax.make_jaxpr(u.move_left_row)(row0)
    sym = Sym(while_bound=2 * n)
    row = sym.sym_array('r', (n,), jnp.int32, lo=0, hi=30)
    t0 = time.time()
    out_row, reward = sym.eval_closed(cj, row)
    print(f'n={n} eval {time.time()-t0:.2f}s side={len(sym.side)}')
    # reference model (independent): compress non-zeros, merge equal neighbours once left-to-right
    def ref(row):
        # symbolic functional reference: process tiles in order keeping (out list as symbolic arrays, count, last_mergeable)
        out = [z3.IntVal(0)] * n; cnt = z3.IntVal(0); can = z3.BoolVal(False); rew = z3.RealVal(0)
        for x in row:
            nz = x != 0
            # last tile = out[cnt-1]
            last = z3.IntVal(0)
            for j in range(n): last = z3.If(cnt - 1 == j, out[j], last)
            do_merge = z3.And(nz, can, last == x)
            new_out = []
            for j in range(n):
                v = out[j]
                v = z3.If(z3.And(do_merge, cnt - 1 == j), x + 1, v)
                v = z3.If(z3.And(nz, z3.Not(do_merge), cnt == j), x, v)
                new_out.append(v)
            out = new_out
            gain = z3.RealVal(0)
            for t in range(0, 33): gain = z3.If(x + 1 == t, z3.RealVal(2 ** t), gain)
            rew = z3.If(do_merge, rew + gain, rew)
            cnt = z3.If(z3.And(nz, z3.Not(do_merge)), cnt + 1, cnt)
            can = z3.If(do_merge, False, z3.If(nz, True, can))
        return out, rew
    r_out, r_rew = ref(list(row))
    for tag, ua in sym.side: prove(sym, True, ua, name=f'2048 n={n} unwinding assertion')
    prove(sym, True, z3.And(*[zint(out_row[j]) == r_out[j] for j in range(n)]), name=f'2048 n={n} row == reference')
    prove(sym, True, zreal(reward[()]) == r_rew, name=f'2048 n={n} reward == reference')
    # conservation: sum of 2^tile preserved
    # can_move_left_row agrees with "move changes the row"
    cj2 = jax.make_jaxpr(u.can_move_left_row)(row0)
    sym2 = Sym(while_bound=2 * n); sym2.assumes = sym.assumes
    (cm,) = sym2.eval_closed(cj2, row)
    for tag, ua in sym2.side: prove(sym2, True, ua, name=f'can_move n={n} unwinding')
    changed = z3.Or(*[zint(out_row[j]) != row[j] for j in range(n)])
    prove(sym, True, zbool(cm[()]) == changed, name=f'2048 n={n} can_move_left_row <=> row changes')

# ---- Sudoku mask ----
b0 = jnp.zeros((9, 9), jnp.int32)
cj = jax.make_jaxpr(su.get_action_mask)(b0)
sym = Sym()
board = sym.sym_array('b', (9, 9), jnp.int32, lo=-1, hi=8)
t0 = time.time()
(mask,) = sym.eval_closed(cj, board)
print('sudoku eval', time.time() - t0)
def spec(r, c, d):
    box = [(3 * (r // 3) + i, 3 * (c // 3) + j) for i in range(3) for j in range(3)]
    return z3.And(board[r, c] == -1, *[board[r, j] != d for j in range(9)], *[board[i, c] != d for i in range(9)], *[board[i, j] != d for i, j in box])
t0 = time.time()
goal = z3.And(*[zbool(mask[r, c, d]) == spec(r, c, d) for r in range(9) for c in range(9) for d in range(9)])
prove(sym, True, goal, name='sudoku mask == rules (729 entries)')
