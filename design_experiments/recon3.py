import warnings; warnings.filterwarnings('ignore')
import jax, jax.numpy as jnp, numpy as np, collections
from jumanji.environments.commons.maze_utils import maze_generation
from jumanji.environments.routing.maze.generator import RandomGenerator as MGen
from jumanji.environments.routing.cleaner.generator import RandomGenerator as CGen
from jumanji.environments.routing.lbf.generator import RandomGenerator as LGen
from jumanji.environments.logic.minesweeper.generator import UniformSamplingGenerator
from jumanji.environments.packing.flat_pack.generator import RandomFlatPackGenerator
from jumanji.environments.packing.bin_pack.generator import RandomGenerator as BGen
def connected(free):
    free = np.asarray(free, bool); cells = list(zip(*np.nonzero(free)))
    if not cells: return True
    seen = {cells[0]}; stack = [cells[0]]
    while stack:
        r, c = stack.pop()
        for dr, dc in ((1,0),(-1,0),(0,1),(0,-1)):
            p = (r+dr, c+dc)
            if 0 <= p[0] < free.shape[0] and 0 <= p[1] < free.shape[1] and free[p] and p not in seen: seen.add(p); stack.append(p)
    return len(seen) == len(cells)
issues = collections.Counter(); ex = {}
def note(k, e):
    issues[k] += 1; ex.setdefault(k, e)
# mazes
for (R, C) in ((1,1),(2,2),(3,3),(2,5),(5,2),(4,4),(5,7),(6,6),(7,4),(10,10)):
    try: gen = jax.jit(lambda k: maze_generation.generate_maze(C, R, k))
    except Exception as e: note(('maze ctor', R, C), str(e)); continue
    for s in range(150):
        try: m = np.asarray(gen(jax.random.PRNGKey(s)))
        except Exception as e: note(('maze fails', R, C), str(e)[:80]); break
        if m.shape != (R, C): note(('maze shape', R, C), m.shape)
        if not connected(m == 0): note(('maze disconnected', R, C), (s, m.tolist()))
        if m[0, 0] != 0: note(('maze origin is wall', R, C), s)
    g = MGen(R, C)
    for s in range(100):
        try: st = jax.jit(g.__call__)(jax.random.PRNGKey(s))
        except Exception as e: note(('Maze gen fails', R, C), str(e)[:80]); break
        w = np.asarray(st.walls); a = (int(st.agent_position.row), int(st.agent_position.col)); t = (int(st.target_position.row), int(st.target_position.col))
        if w[a] or w[t]: note(('Maze agent/target on wall', R, C), (s, a, t, w.astype(int).tolist()))
        if a == t: note(('Maze agent == target', R, C), (s, a, w.astype(int).tolist()))
# minesweeper
for (R, C, M) in ((2,2,1),(2,2,3),(3,4,11),(10,10,10)):
    g = UniformSamplingGenerator(R, C, M)
    for s in range(100):
        st = g(jax.random.PRNGKey(s)); ml = np.asarray(st.flat_mine_locations)
        if len(set(ml.tolist())) != M or ml.min() < 0 or ml.max() >= R*C: note(('mines', R, C, M), (s, ml.tolist()))
# LBF
for (G, A, F, coop) in ((5,1,1,False),(5,2,1,True),(6,3,2,True),(6,2,3,False),(8,2,2,True),(7,4,3,False)):
    try: g = LGen(grid_size=G, fov=G, num_agents=A, num_food=F, force_coop=coop)
    except AssertionError as e: note(('LBF ctor refuses', G, A, F), str(e)[:60]); continue
    f = jax.jit(g.__call__)
    for s in range(150):
        st = f(jax.random.PRNGKey(s)); ap = [tuple(p) for p in np.asarray(st.agents.position).tolist()]; fp = [tuple(p) for p in np.asarray(st.food_items.position).tolist()]
        allp = ap + fp
        if len(set(allp)) != len(allp): note(('LBF overlapping entities', G, A, F), (s, ap, fp))
        if any(not (0 <= x < G and 0 <= y < G) for x, y in allp): note(('LBF off grid', G, A, F), (s, ap, fp))
        if any(abs(a[0]-b[0]) + abs(a[1]-b[1]) == 1 for i, a in enumerate(fp) for b in fp[i+1:]): note(('LBF adjacent food', G, A, F), (s, fp))
        if any(x in (0, G-1) or y in (0, G-1) for x, y in fp): note(('LBF food on edge', G, A, F), (s, fp))
        lv = np.asarray(st.food_items.level); al = np.asarray(st.agents.level)
        if (lv < 1).any() or (lv > al.sum()).any(): note(('LBF food level unreachable', G, A, F), (s, lv.tolist(), al.tolist()))
# FlatPack
for (rb, cb) in ((1,1),(1,2),(2,2),(2,3),(3,3),(5,5)):
    g = RandomFlatPackGenerator(rb, cb); f = jax.jit(g.__call__)
    for s in range(60):
        st = f(jax.random.PRNGKey(s)); blocks = np.asarray(st.blocks); nb = rb*cb
        cells = sum((blocks[i] != 0).sum() for i in range(nb)); R, C = 3*rb-(rb-1), 3*cb-(cb-1)
        if cells != R*C: note(('FlatPack blocks do not sum to grid area', rb, cb), (s, int(cells), R*C))
        if any(not connected_or_empty for connected_or_empty in [True]): pass
        if any((blocks[i] != 0).sum() == 0 for i in range(nb)): note(('FlatPack empty block', rb, cb), s)
for k, v in sorted(issues.items(), key=str): print(v, k, str(ex[k])[:260])
print('done')
