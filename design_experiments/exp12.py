import warnings; warnings.filterwarnings('ignore')
import time, sys, numpy as np, jax, jax.numpy as jnp, z3
exec(open('exp7.py').read().split("from jumanji.environments import Game2048")[0])   # stub machinery (choice)
import havoc
from jumanji.environments import Tetris, FlatPack, Sokoban
from jumanji.environments.packing.tetris import utils as tu
from jumanji.environments.packing.tetris.constants import TETROMINOES_LIST
from jumanji.environments.packing.flat_pack.generator import RandomFlatPackGenerator
from jumanji.environments.routing.sokoban.generator import ToyGenerator as SToy
Z = lambda x: z3.BoolVal(bool(x)) if isinstance(x, (bool, np.bool_)) else (z3.IntVal(int(x)) if is_c(x) and not isinstance(x, float) else (z3.RealVal(x) if is_c(x) else x))
def flat_sym(sym, tree, prefix):
    leaves, treedef = jax.tree_util.tree_flatten(tree); out = []
    for i, l in enumerate(leaves):
        l = jnp.asarray(l); dt = jnp.int32 if l.dtype == jnp.uint32 else l.dtype
        out.append(sym.sym_array(f'{prefix}{i}', l.shape, dt))
    return out, treedef
def check(sym, pre, clauses, name, timeout=120000):
    bad = []; t0 = time.time()
    for nm, c in clauses:
        s = z3.Solver(); s.set('timeout', timeout); s.add(*sym.assumes); s.add(pre, z3.Not(c)); r = s.check()
        if r != z3.unsat: bad.append((nm, str(r)))
    print(f'{name}: {len(clauses) - len(bad)}/{len(clauses)} proved in {time.time()-t0:.1f}s', ('NOT PROVED: ' + str(bad[:5])) if bad else ''); return bad

# ------------- Tetris: clean_lines and place_tetromino at function level -------------
R, C = 4, 4
gp0 = jnp.zeros((R + 3, C + 3), jnp.int32)
cj = jax.make_jaxpr(tu.clean_lines)(gp0, jnp.zeros((R + 3,), bool))
sym = Sym(while_bound=R + 3)
g = sym.sym_array('g', (R + 3, C + 3), jnp.int32, lo=0, hi=50); fl = sym.sym_array('f', (R + 3,), jnp.bool_)
t0 = time.time(); (out,) = sym.eval_closed(cj, g, fl); print('clean_lines eval %.2fs side=%d' % (time.time() - t0, len(sym.side)))
for tag, ua in sym.side: check(sym, True, [('unwind', Z(ua))], 'clean_lines unwinding')
# spec: rows flagged full are removed, the remaining rows keep their order and move down, k empty rows appear at the top
k = z3.Sum([z3.If(Z(fl[i]), 1, 0) for i in range(R + 3)])
cl = []
for i in range(R + 3):
    # output row i: if i < k -> zeros ; else the (i-k)-th non-full row of the input (in order)
    for j in range(C + 3):
        exp = z3.IntVal(0)
        for src in range(R + 3):
            nf_before = z3.Sum([z3.If(z3.Not(Z(fl[p])), 1, 0) for p in range(src)]) if src else z3.IntVal(0)
            exp = z3.If(z3.And(z3.Not(Z(fl[src])), nf_before == i - k), g[src, j], exp)
        cl.append((f'row{i}col{j}', Z(out[i, j]) == z3.If(i < k, 0, exp)))
check(sym, True, cl, f'Tetris clean_lines == spec (all grids {R+3}x{C+3}, all flag vectors)')

# place_tetromino: drop
cj = jax.make_jaxpr(tu.place_tetromino)(gp0, jnp.zeros((4, 4), jnp.int32), jnp.int32(0))
sym = Sym()
g = sym.sym_array('g', (R + 3, C + 3), jnp.int32, lo=0, hi=50)
tet_idx = z3.Int('ti'); rot = z3.Int('ro'); x = sym.sym_array('x', (), jnp.int32, lo=0, hi=C - 1)
T = np.array(TETROMINOES_LIST)    # (7,4,4,4)
tet = np.empty((4, 4), dtype=object)
for i in range(4):
    for j in range(4):
        v = z3.IntVal(0)
        for a in range(7):
            for b in range(4):
                if T[a, b, i, j]: v = z3.If(z3.And(tet_idx == a, rot == b), 1, v)
        tet[i, j] = v
sym.assumes += [tet_idx >= 0, tet_idx < 7, rot >= 0, rot < 4]
t0 = time.time(); newg, y = sym.eval_closed(cj, g, tet, x); print('place_tetromino eval %.2fs' % (time.time() - t0))
# precondition: padding (rows >= R, cols >= C) is empty, piece fits horizontally (action mask semantics), top placement is free
xv = x[()]
pad_empty = z3.And(*[g[i, j] == 0 for i in range(R + 3) for j in range(C + 3) if i >= R or j >= C])
def occ(i, j): return g[i, j] != 0
def fits(yv):   # piece placed with top-left at (yv, xv) is inside the RxC board and overlaps nothing
    cs = []
    for i in range(4):
        for j in range(4):
            for yy in range(R):
                for xx in range(C):
                    pass
    return None
# reference drop: y* = max { y : for all y' <= y, piece fits at (y', x) }  where fit = inside board & no overlap
def cell_at(yy, xx):   # symbolic gather of occupancy with explicit bounds
    v = z3.BoolVal(True)   # outside the board counts as blocked
    for i in range(R):
        for j in range(C):
            v = z3.If(z3.And(yy == i, xx == j), occ(i, j), v)
    return v
def fit_at(yc):
    return z3.And(*[z3.Implies(tet[i, j] == 1, z3.Not(cell_at(yc + i, xv + j))) for i in range(4) for j in range(4)])
ystar = z3.IntVal(-1)
prefix = z3.BoolVal(True)
for yc in range(R):
    prefix = z3.And(prefix, fit_at(z3.IntVal(yc))); ystar = z3.If(prefix, yc, ystar)
pre = z3.And(pad_empty, fit_at(z3.IntVal(0)))
cl = []
for i in range(R):
    for j in range(C):
        placed = z3.Or(*[z3.And(ystar + a == i, xv + b == j, tet[a, b] == 1) for a in range(4) for b in range(4)])
        cl.append((f'cell{i},{j}', (Z(newg[i, j]) != 0) == z3.Or(occ(i, j), placed)))
check(sym, pre, cl, f'Tetris place_tetromino: piece dropped to the lowest reachable row (board {R}x{C}, all pieces/rotations/columns)')
