import warnings; warnings.filterwarnings('ignore')
import time, sys, numpy as np, jax, jax.numpy as jnp, z3
from symjax import *
import havoc
exec(open('jaxpr_stats.py').read().split("def count(jaxpr")[0])
def flat_sym(sym, tree, prefix):
    leaves, treedef = jax.tree_util.tree_flatten(tree); out = []
    for i, l in enumerate(leaves):
        l = jnp.asarray(l); dt = jnp.int32 if l.dtype == jnp.uint32 else l.dtype
        out.append(sym.sym_array(f'{prefix}{i}', l.shape, dt))
    return out, treedef
def setup(env, bound=12):
    state, ts = env.reset(jax.random.PRNGKey(0)); a = env.action_spec.generate_value()
    cj = jax.make_jaxpr(env.step)(state, a)
    otree = jax.tree_util.tree_structure(jax.eval_shape(env.step, state, a))
    sym = Sym(while_bound=bound); sl, sd = flat_sym(sym, state, 's'); al, ad = flat_sym(sym, a, 'a')
    S = jax.tree_util.tree_unflatten(sd, sl); A = jax.tree_util.tree_unflatten(ad, al)
    outs = sym.eval_closed(cj, *sl, *al); NS, TS = jax.tree_util.tree_unflatten(otree, outs)
    return sym, S, A, NS, TS
Z = lambda x: z3.BoolVal(x) if isinstance(x, (bool, np.bool_)) else (z3.IntVal(int(x)) if is_c(x) and not isinstance(x, float) else (z3.RealVal(x) if is_c(x) else x))
def check(sym, pre, clauses, name):
    bad = []
    t0 = time.time()
    for nm, c in clauses:
        s = z3.Solver(); s.set('timeout', 60000); s.add(*sym.assumes); s.add(pre, z3.Not(c)); r = s.check()
        if r != z3.unsat: bad.append((nm, str(r), s.model() if r == z3.sat else None))
    print(f'{name}: {len(clauses) - len(bad)}/{len(clauses)} clauses proved in {time.time()-t0:.1f}s', 'FAILED: ' + ', '.join(b[0] + ':' + b[1] for b in bad[:6]) if bad else '')
    return bad

# ---------------- Knapsack ----------------
n = 4; sym, S, A, NS, TS = setup(Knapsack(KGen(n, 1.5)))
legal = lambda St, i: z3.And(z3.Not(Z(St.packed_items[i])), Z(St.weights[i]) <= Z(St.remaining_budget[()]))
check(sym, True, [(f'mask[{i}]', Z(TS.observation.action_mask[i]) == legal(NS, i)) for i in range(n)], 'Knapsack C04 obs mask == legal(new state) [all states]')
a = A[()]
valid = z3.Or(*[z3.And(a == i, legal(S, i)) for i in range(n)])
check(sym, z3.And(a >= 0, a < n), [('legal=>not-invalid-branch', z3.Implies(valid, z3.Or(*[z3.And(a == i, Z(NS.packed_items[i])) for i in range(n)]))),
                                   ('illegal=>LAST & state untouched', z3.Implies(z3.Not(valid), z3.And(Z(TS.step_type[()]) == 2, Z(NS.remaining_budget[()]) == Z(S.remaining_budget[()]), *[Z(NS.packed_items[i]) == Z(S.packed_items[i]) for i in range(n)])))], 'Knapsack C05')
# ---------------- CVRP ----------------
n = 3; env = CVRP(CVGen(n, 10, 5)); sym, S, A, NS, TS = setup(env); a = A[()]
def cv_legal(St, i):
    base = z3.And(z3.Not(Z(St.visited_mask[i])), Z(St.capacity[()]) >= Z(St.demands[i]))
    return (Z(St.position[()]) != 0) if i == 0 else base
inv = lambda St: z3.And(Z(St.visited_mask[0]) == (Z(St.position[()]) == 0), Z(St.demands[0]) == 0, Z(St.capacity[()]) >= 0, *[Z(St.demands[i]) >= 1 for i in range(1, n + 1)])
check(sym, z3.And(inv(S), a >= 0, a <= n), [(f'mask[{i}]', Z(TS.observation.action_mask[i]) == cv_legal(NS, i)) for i in range(n + 1)], 'CVRP C04 obs mask == legal(new state)')
valid = z3.Or(*[z3.And(a == i, cv_legal(S, i)) for i in range(n + 1)])
check(sym, z3.And(inv(S), a >= 0, a <= n), [('legal<=>moved', valid == z3.And(Z(NS.position[()]) == a, Z(NS.num_total_visits[()]) == Z(S.num_total_visits[()]) + 1)), ('inv preserved', inv(NS))], 'CVRP own reaction agrees with mask + inv')
# ---------------- Minesweeper ----------------
R, C = 3, 4; sym, S, A, NS, TS = setup(Minesweeper(UniformSamplingGenerator(R, C, 3)))
check(sym, True, [(f'mask[{i},{j}]', Z(TS.observation.action_mask[i, j]) == (Z(NS.board[i, j]) == -1)) for i in range(R) for j in range(C)], 'Minesweeper C04 mask == unexplored')
# neighbour count rule
mines = [Z(S.flat_mine_locations[k]) for k in range(3)]
inv = z3.And(*[z3.And(m >= 0, m < R * C) for m in mines], z3.Distinct(*mines), A[0] >= 0, A[0] < R, A[1] >= 0, A[1] < C)
is_mine = lambda i, j: z3.Or(*[m == i * C + j for m in mines])
cl = []
for i in range(R):
    for j in range(C):
        cnt = z3.Sum([z3.If(is_mine(p, q), 1, 0) for p in range(max(0, i - 1), min(R, i + 2)) for q in range(max(0, j - 1), min(C, j + 2)) if (p, q) != (i, j)])
        cl.append((f'count[{i},{j}]', z3.Implies(z3.And(A[0] == i, A[1] == j), Z(NS.board[i, j]) == cnt)))
check(sym, inv, cl, 'Minesweeper C09 revealed value == #adjacent mines')
# ---------------- SlidingTile ----------------
g = 3; sym, S, A, NS, TS = setup(SlidingTilePuzzle(STGen(g, 5), time_limit=50)); a = A[()]
MV = [(-1, 0), (0, 1), (1, 0), (0, -1)]
er, ec = Z(NS.empty_tile_position[0]), Z(NS.empty_tile_position[1])
check(sym, True, [(f'mask[{m}]', Z(TS.observation.action_mask[m]) == z3.And(er + dr >= 0, er + dr < g, ec + dc >= 0, ec + dc < g)) for m, (dr, dc) in enumerate(MV)], 'SlidingTile C04')
# ---------------- JobShop ----------------
J, M, O, D = 3, 2, 2, 3; sym, S, A, NS, TS = setup(JobShop(JGen(J, M, O, D)))
def js_legal(St, m, j):
    if j == J: return z3.BoolVal(True)
    # next op of job j = first o with ops_mask[j,o]
    conds = []
    for o in range(O):
        is_next = z3.And(Z(St.ops_mask[j, o]), *[z3.Not(Z(St.ops_mask[j, p])) for p in range(o)])
        conds.append(z3.And(is_next, Z(St.ops_machine_ids[j, o]) == m))
    running = z3.Or(*[z3.And(Z(St.machines_job_ids[q]) == j, Z(St.machines_remaining_times[q]) > 0) for q in range(M)])
    return z3.And(Z(St.machines_remaining_times[m]) == 0, z3.Or(*conds), z3.Not(running))
check(sym, True, [(f'mask[{m},{j}]', Z(TS.observation.action_mask[m, j]) == js_legal(NS, m, j)) for m in range(M) for j in range(J + 1)], 'JobShop C04 obs mask == legal(new state) [all states]')
# ---------------- Connector ----------------
G, NA = 3, 2; sym, S, A, NS, TS = setup(Connector(CoGen(G, NA), time_limit=50))
def co_legal(St, ag, act):
    if act == 0: return z3.BoolVal(True)
    dr, dc = [(0, 0), (-1, 0), (0, 1), (1, 0), (0, -1)][act]
    r, c = Z(St.agents.position[ag, 0]) + dr, Z(St.agents.position[ag, 1]) + dc
    connected = z3.And(Z(St.agents.position[ag, 0]) == Z(St.agents.target[ag, 0]), Z(St.agents.position[ag, 1]) == Z(St.agents.target[ag, 1]))
    tgt = 3 + 3 * Z(St.agents.id[ag])
    cell_ok = z3.Or(*[z3.And(r == i, c == j, z3.Or(Z(St.grid[i, j]) == 0, Z(St.grid[i, j]) == tgt)) for i in range(G) for j in range(G)])
    return z3.And(cell_ok, z3.Not(connected))
check(sym, True, [(f'mask[{ag},{act}]', Z(TS.observation.action_mask[ag, act]) == co_legal(NS, ag, act)) for ag in range(NA) for act in range(5)], 'Connector C04 obs mask == legal(new state) [all states]')
# ---------------- TSP ----------------
n = 4; sym, S, A, NS, TS = setup(TSP(TGen(n)))
check(sym, True, [(f'mask[{i}]', Z(TS.observation.action_mask[i]) == z3.Not(Z(NS.visited_mask[i]))) for i in range(n)], 'TSP C04')
