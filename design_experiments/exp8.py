import warnings; warnings.filterwarnings('ignore')
import time, sys, numpy as np, jax, jax.numpy as jnp, z3
exec(open('exp7.py').read().split("from jumanji.environments import Game2048")[0])   # reuse ext stub machinery
from jumanji.environments import Snake
R, C = int(sys.argv[1]), int(sys.argv[2])
env = Snake(R, C, time_limit=50)
state, ts = env.reset(jax.random.PRNGKey(0)); act = env.action_spec.generate_value()
jr.choice = stub_choice; jax.random.choice = stub_choice
cj = jax.make_jaxpr(env.step)(state, act)
jr.choice = _real_choice; jax.random.choice = _real_choice
otree = jax.tree_util.tree_structure(jax.eval_shape(env.step, state, act))
def flat_sym(sym, tree, prefix):
    leaves, treedef = jax.tree_util.tree_flatten(tree); out = []
    for i, l in enumerate(leaves):
        l = jnp.asarray(l); out.append(sym.sym_array(f'{prefix}{i}', l.shape, jnp.int32 if l.dtype == jnp.uint32 else l.dtype))
    return out, treedef
sym = Sym(); sl, sd = flat_sym(sym, state, 's'); al, ad = flat_sym(sym, act, 'a')
S = jax.tree_util.tree_unflatten(sd, sl); a = al[0][()]
t0 = time.time(); outs = sym.eval_closed(cj, *sl, *al); print('snake eval', time.time() - t0)
NS, TS = jax.tree_util.tree_unflatten(otree, outs)
cells = [(i, j) for i in range(R) for j in range(C)]; N = R * C
L = lambda x: zlift(x)
def zlift(x):
    if is_c(x): return z3.BoolVal(x) if isinstance(x, bool) else z3.IntVal(x)
    return x
def adj(p, q): return abs(p[0] - q[0]) + abs(p[1] - q[1]) == 1
MOVES = [(-1, 0), (0, 1), (1, 0), (0, -1)]
def INV(St, with_mask=True):
    bs = {c: zlift(St.body_state[c]) for c in cells}; ln = zlift(St.length[()])
    hr, hc = zlift(St.head_position.row[()]), zlift(St.head_position.col[()]); fr, fc = zlift(St.fruit_position.row[()]), zlift(St.fruit_position.col[()])
    cs = [ln >= 1, ln <= N]
    for c in cells:
        cs += [bs[c] >= 0, bs[c] <= ln, zlift(St.body[c]) == (bs[c] > 0), zlift(St.tail[c]) == (bs[c] == 1)]
    for k in range(1, N + 1):
        cnt = z3.Sum([z3.If(bs[c] == k, 1, 0) for c in cells])
        cs.append(z3.If(ln >= k, cnt == 1, cnt == 0))
        if k < N:   # segment k and k+1 adjacent
            cs.append(z3.Implies(ln >= k + 1, z3.Or(*[z3.And(bs[p] == k, bs[q] == k + 1) for p in cells for q in cells if adj(p, q)])))
    cs.append(z3.Or(*[z3.And(hr == c[0], hc == c[1], bs[c] == ln) for c in cells]))
    cs.append(z3.Or(*[z3.And(fr == c[0], fc == c[1], bs[c] == 0) for c in cells]))
    if with_mask:
        for m, (dr, dc) in enumerate(MOVES):
            ok = z3.Or(*[z3.And(hr + dr == c[0], hc + dc == c[1], bs[c] <= 1) for c in cells])   # free, or the tail cell which moves away
            cs.append(zlift(St.action_mask[m]) == ok)
    return z3.And(*cs)
sc = zlift(S.step_count[()])
pre = z3.And(INV(S), a >= 0, a <= 3, sc >= 0, sc < 50)
not_last = zlift(TS.step_type[()]) != 2
goal = INV(NS)
conj = goal.children(); print('conjuncts', len(conj))
import multiprocessing as mp
def work(i):
    s = z3.Solver(); s.set('timeout', 300000); s.add(*sym.assumes); s.add(pre, not_last, z3.Not(conj[i])); t = time.time(); r = s.check()
    return i, str(r), round(time.time() - t, 2)
if __name__ == '__main__':
    s = z3.Solver(); s.add(*sym.assumes); s.add(pre, not_last); print('cover (pre & not LAST satisfiable):', s.check())
    with mp.get_context('fork').Pool(14) as p: res = p.map(work, range(len(conj)))
    bad = [r for r in res if r[1] != 'unsat']
    print('proved', sum(r[1] == 'unsat' for r in res), 'of', len(res), 'max time', max(r[2] for r in res), 'not proved:', bad[:5])
    # sanity: false claims must be refuted
    for nm, claim in (('length never changes', zlift(NS.length[()]) == zlift(S.length[()])), ('head never moves down', zlift(NS.head_position.row[()]) <= zlift(S.head_position.row[()]))):
        s = z3.Solver(); s.add(*sym.assumes); s.add(pre, not_last, z3.Not(claim)); print('  false claim', nm, '->', s.check())
    # mutation: invariant WITHOUT the tail exception in the mask spec must fail
