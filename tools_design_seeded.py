"""Regenerates the 'seeded changes' table in DESIGN.md (section 0.4) from seeded/*/meta.json (development helper)."""
import glob, json, os, re
rows = []
for d in sorted(glob.glob("/verif/seeded/*/")):
    m = json.load(open(os.path.join(d, "meta.json")))
    name = os.path.basename(d.rstrip("/"))
    rows.append(f"| `{name}` | {m['property']} | {(m.get('summary') or '').replace('|', '/')[:300]} | {(m.get('needs_to_manifest') or '').replace('|', '/')[:220]} | {m['caught_by_check']} | {m['failing_obligations'].replace('|', '/')[:260]} |")
table = ("### 0.4 Seeded changes (independent sub-agents, each given only one property's text and a scratch worktree) and which checks catch them\n\n"
         "Every change below was confirmed by the lead in a scratch worktree (its demonstration fails with the change and passes on `/repo`; the package's existing tests pass with it),\n"
         "stored under `seeded/<name>/` (patch.diff, demo.py, meta.json) and run against the corresponding check with `VERIF_REPO=<worktree> ./check Cxx`.\n"
         "\"after strengthening\" = the first version of the check missed it; what was changed is in the change's meta.json and summarised in 0.5.\n\n"
         "| change | property | what it does | needs | caught | failing obligations |\n|---|---|---|---|---|---|\n" + "\n".join(rows) + "\n")
p = "/verif/DESIGN.md"
s = open(p).read()
if "<!-- SEEDED-BEGIN -->" in s:
    s = re.sub(r"<!-- SEEDED-BEGIN -->.*<!-- SEEDED-END -->", "<!-- SEEDED-BEGIN -->\n" + table + "<!-- SEEDED-END -->", s, flags=re.S)
else:
    s = s.replace("\n---------------------------------------------------------------------------------------------------\n\n## 1. What is being built",
                  "\n<!-- SEEDED-BEGIN -->\n" + table + "<!-- SEEDED-END -->\n\n---------------------------------------------------------------------------------------------------\n\n## 1. What is being built", 1)
open(p, "w").write(s)
print(len(rows), "seeded changes rendered")
