"""Regenerates MANIFEST.json from checks/*.py metadata (development helper; run manually)."""
import importlib, json, os, sys
ROOT = os.path.dirname(os.path.abspath(__file__))
sys.path[:0] = [ROOT, "/repo"]
props = [json.loads(l) for l in open(os.path.join(ROOT, "properties.jsonl"))]
checks, na = [], []
for p in props:
    pid = p["id"]
    path = os.path.join(ROOT, "checks", pid + ".py")
    if not os.path.exists(path):
        na.append({"property_id": pid, "reason": "check not built yet (work in progress; see DESIGN.md section 6)"})
        continue
    m = importlib.import_module("checks." + pid)
    if getattr(m, "LEVEL_TEXT", "wip") == "wip":
        na.append({"property_id": pid, "reason": "check under construction (contracts being written; see DESIGN.md section 6)"})
        continue
    checks.append({
        "property_id": pid,
        "quick_cmd": f"./check {pid} --tier quick",
        "thorough_cmd": f"./check {pid} --tier thorough",
        "evidence_file": f"/verif/evidence/{pid}.json",
        "replay_cmd_template": f"./check {pid} --replay {{path}}",
        "engine": getattr(m, "ENGINE", "jxv (Engine J: jaxpr -> SMT verification conditions)"),
        "level_claimed": {"category": getattr(m, "LEVEL", "proof"), "text": m.LEVEL_TEXT, "design_ref": f"DESIGN.md section 6 ({pid})"},
        "level_note": m.LEVEL_NOTE,
        "technique": getattr(m, "TECHNIQUE", "contract-based deductive verification: sidecar contracts on the real functions, VCs generated from the jaxpr JAX extracts from /repo on every run, discharged by z3/cvc5"),
    })
doc = {
    "version": 1,
    "setup_cmd": "./setup.sh",
    "hooks": {"guard": "JUMANJI_VERIF", "enable": "none needed: contracts are sidecar files under /verif/contracts, the repository is analysed unmodified (guard unused)",
              "baseline_off_cmd": json.load(open("/root/.vp/BASELINE.json"))["cmd"], "source_commits": [], "add_only": True},
    "engines": [
        {"name": "jxv-J", "path": "jxv/symeval.py", "serves_properties": [c["property_id"] for c in checks],
         "kind_free_text": "symbolic evaluator of jaxprs (JAX's mechanical extraction of the real functions) to z3 terms; per-clause-element VCs; fork pool; native replay"},
    ],
    "checks": checks,
    "not_applicable": na,
    "notes": "exit codes: 0 held, 1 violation (VIOLATION line), 2 undecided, 3 checker error. See DESIGN.md.",
}
json.dump(doc, open(os.path.join(ROOT, "MANIFEST.json"), "w"), indent=1)
import jsonschema
jsonschema.validate(doc, json.load(open("/root/.vp/MANIFEST.schema.json")))
print("MANIFEST ok:", [c["property_id"] for c in checks], "n/a:", [n["property_id"] for n in na])
